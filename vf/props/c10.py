"""C10 REQUIRED_USE solving is sound, complete and preference-first.

Generated: REQUIRED_USE strings from random trees (||, ^^, ??, all-of, (negated) conditionals,
negated flags; depth <= 3, <= 5 flags a..e) parsed through ebuild_src.base.required_use with
EAPI 8 (the call the test-suite and pkgcheck use); for each constraint every subset of its
flags plus one unused flag as IUSE, with force_true / force_false (disjoint - the solver's
precondition; force_true may name flags outside the IUSE subset, which then must stay off) and
prefer_true sets derived from three random masks.

Oracle: brute force over all assignments of IUSE (flags outside IUSE off, forced values fixed)
with the independent reader of vf/gen/depsets.py (unmet conditionals vanish, emptied groups
vanish - the reading ebd._check_required_use implements via evaluate_depset + match and
portage's check_required_use).  The solver's output list must (sound) contain only satisfying
assignments that respect forced / non-IUSE flags, (complete) contain every satisfying
assignment, (exactly once) hold no duplicates, (preference) start with the preferred assignment
whenever that one satisfies.  Assignments on which the two defensible readings of an emptied
group directly inside || ^^ ?? differ are don't-care (neither required nor forbidden).

Simplified w.r.t. DESIGN.md: nothing dropped.  A flag forced on but missing from IUSE is read as
"outside IUSE": off in every produced assignment (the solver intersects force_true with iuse).
"""
from hypothesis import strategies as st

from .. import core
from ..gen import depsets as D

ID = "C10"
TITLE = "REQUIRED_USE solving is sound, complete and preference-first"
LEVEL = "exploration"
TECHNIQUE = "differential vs. brute-force enumeration with an independent propositional evaluator; random constraint trees x all IUSE subsets x random forced/preferred sets"
DESIGN_REF = "DESIGN.md §3 C10"
LEVEL_TEXT = (
    "Generated-input search: random REQUIRED_USE constraints over <= 5 flags; per constraint every IUSE subset "
    "(plus an unused flag) and random forced/preferred sets; the full solution list of find_constraint_satisfaction "
    "is compared with the brute-force satisfying set (exhaustive over assignments per case)."
)
LEVEL_NOTE = "Trusted: vf/gen/depsets.py reduce_tree/sat (PMS reading of REQUIRED_USE). No proof of absence."
RULE = (
    "constraint = random tree (depth<=4, <=8 leaves, flags a..e, operators || ^^ ?? ( ) f? !f? !f) rendered to text and "
    "parsed via ebuild_src.base.required_use (EAPI 8); IUSE = each subset of the constraint's flags + unused flag 'u'; "
    "force_true/force_false/prefer_true from 3 random masks over all flags (forced sets disjoint; forced-on flags outside IUSE must stay off). one evaluation = "
    "one solver call compared with brute force. non-trivial = constraint has an operator or conditional node and, for this "
    "IUSE/forcing, >=2 satisfying and >=1 unsatisfying assignment; distinct = distinct (string, iuse, forced, preferred)"
)
ASSUMPTIONS = [
    "reference reading of REQUIRED_USE: unmet conditionals vanish, emptied groups vanish; assignments where 'emptied group inside || ^^ ?? counts as satisfied' would differ are not judged",
    "force_true, force_false disjoint (solver precondition: it asserts otherwise); a forced-on flag outside IUSE counts as outside IUSE (off)",
    "a solution dict may omit flags (read as off)",
]
BUDGET = {"quick": 50, "thorough": 900}

EXTRA = "u"


class Env:
    def __init__(self):
        from pkgcore.ebuild.eapi import get_eapi
        from pkgcore.ebuild.ebuild_src import base as ebuild
        from pkgcore.restrictions.required_use import find_constraint_satisfaction

        self.eapi = get_eapi("8", suppress_unsupported=True)
        self.ebuild = ebuild
        self.solver = find_constraint_satisfaction

    def parse(self, s):
        o = self.ebuild(None, "dev-util/diffball-0.1-r1")
        object.__setattr__(o, "eapi", self.eapi)
        object.__setattr__(o, "data", {"REQUIRED_USE": s})
        return o.required_use


_ENV = None


def env():
    global _ENV
    if _ENV is None:
        _ENV = Env()
    return _ENV


def tree_flags(tree):
    out = set(D.cond_flags(tree))
    for t in D.leaves(tree):
        out.add(t.lstrip("!"))
    return out


def ref_value(tree, on):
    """-> True/False, or None when the two readings of an emptied nested group disagree"""
    b, a = D.reduce_tree(tree, on, "required_use")
    v = D.sat(b, on, True)
    if a is not None and D.sat(a, on, True) != v:
        return None
    return v


def _cause(tree):
    """root-cause hint for buckets: the construct known to be read differently by the solver"""
    cl = set(D.classify(tree, "required_use"))
    if cl & {"cond_under_any", "cond_under_xor", "cond_under_amo"}:
        return "conditional-inside-choice-group"
    if "amo_single" in cl:
        return "single-member-amo"
    return "other"


def check_one(ctx, s, tree, restricts, iuse, ft, ff, pt, record=True):
    """one solver call vs brute force.  iuse/ft/ff/pt are sorted lists."""
    E = env()
    case = {"s": s, "iuse": iuse, "force_true": ft, "force_false": ff, "prefer_true": pt}
    flags = sorted(tree_flags(tree) | set(iuse))
    # statement: forced-on flags stay on, forced-off flags *and flags outside IUSE* stay off; a flag
    # that is forced on but not in IUSE is outside IUSE, hence off (the solver intersects with iuse)
    ft_in = [f for f in ft if f in iuse]
    ft_out = [f for f in ft if f not in iuse]
    free = [f for f in iuse if f not in ft and f not in ff]
    base_on = frozenset(ft_in)
    want, dontcare, nunsat = set(), set(), 0
    for sub in D.subsets(free):
        on = base_on | sub
        v = ref_value(tree, on)
        if v is None:
            dontcare.add(on)
        elif v:
            want.add(on)
        else:
            nunsat += 1
    has_op = any(nd[0] != "leaf" for nd, _, _ in D.walk(tree))
    tree_classes = D.classify(tree, "required_use")
    if record:
        cl = ["iuse_full" if set(iuse) >= tree_flags(tree) else "iuse_partial"]
        if ft:
            cl.append("force_true")
        if ft_out:
            cl.append("force_true_outside_iuse")
        if "nested_conditional_in_choice_group" in tree_classes:
            cl.append("nested_conditional_in_choice_group")
        if ff:
            cl.append("force_false")
        if pt:
            cl.append("prefer_true")
        if not want:
            cl.append("unsatisfiable")
        if dontcare:
            cl.append("has_dontcare")
        ctx.case(case, nontrivial=has_op and len(want) >= 2 and nunsat >= 1, classes=cl,
                 key=core.jdump([s, iuse, ft, ff, pt]))

    def solve():
        return list(E.solver(restricts, set(iuse), force_true=set(ft), force_false=set(ff), prefer_true=set(pt)))

    sols = core.guarded(ctx, case, solve)
    if core.crashed(sols):
        return
    cause = _cause(tree)
    seen = set()
    got = []
    for sol in sols:
        on = frozenset(k for k, v in sol.items() if v)
        got.append(on)
        bad = sorted(on - set(iuse))
        if bad:
            ctx.violation("sound:flag-outside-iuse-on", case, f"solution {sorted(on)} enables {bad} which are not in IUSE {iuse}")
        if not set(ft_in) <= on:
            ctx.violation("sound:forced-on-flag-off", case, f"solution {sorted(on)} drops forced-on {sorted(set(ft_in) - on)}")
        if on & set(ff):
            ctx.violation("sound:forced-off-flag-on", case, f"solution {sorted(on)} enables forced-off {sorted(on & set(ff))}")
        if on in seen:
            ctx.violation("once:duplicate-solution", case, f"solution {sorted(on)} produced more than once")
        seen.add(on)
        if ref_value(tree, on) is False:
            extra = ""
            ev = restricts.evaluate_depset(sorted(on))
            fails = [str(n) for n in ev if not n.match(sorted(on))]
            if fails:
                extra = f"; pkgcore's own check (evaluate_depset + match) also fails on {fails}"
            ctx.violation(f"sound:unsatisfying-solution:{cause}", case,
                          f"solution {sorted(on)} does not satisfy {s!r}{extra}")
    missing = [w for w in want if w not in seen]
    if missing:
        m = min(missing, key=lambda x: (len(x), sorted(x)))
        ctx.violation(f"complete:missing-solution:{cause}", case,
                      f"{len(missing)} satisfying assignment(s) never produced, e.g. {sorted(m)} for {s!r} (got {len(sols)} solutions)")
    pref = frozenset(ft_in) | (frozenset(pt) & frozenset(iuse)) - frozenset(ff)
    if ref_value(tree, pref) is True:
        if not got or got[0] != pref:
            first = sorted(got[0]) if got else None
            ctx.violation(f"prefer:not-first:{cause if pref not in seen else 'order'}", case,
                          f"preferred assignment {sorted(pref)} satisfies {s!r} but the first solution is {first}")
    ctx.count("assignments_bruteforced", 1 << len(free))
    return flags


def _mask(items, m):
    return [x for i, x in enumerate(items) if m >> i & 1]


def check_constraint(ctx, case):
    """case = {"s", "masks": [ftmask, ffmask, ptmask]} -> all IUSE subsets"""
    E = env()
    s = case["s"]
    try:
        tree = D.ref_parse(s, "required_use")
    except D.RefSyntaxError as e:
        raise core.HarnessError(f"generator produced an invalid REQUIRED_USE {s!r}: {e}")
    restricts = core.guarded(ctx, {"s": s}, lambda: E.parse(s))
    if core.crashed(restricts):
        return
    flags = sorted(tree_flags(tree))
    allf = flags + [EXTRA]
    m_ft, m_ff, m_pt = case["masks"]
    for sub in D.subsets(flags):
        iuse = sorted(sub | {EXTRA})
        ft = _mask(allf, m_ft)  # may name flags outside this IUSE subset
        ff = [f for f in _mask(allf, m_ff) if f not in ft]
        pt = _mask(allf, m_pt)
        check_one(ctx, s, tree, restricts, iuse, ft, ff, pt)


def build_case(n):
    import random

    rnd = random.Random(n)
    nflags = rnd.randint(1, 5)
    pool = list(D.RU_FLAGS[:nflags])
    nodes = D.gen_tree(rnd, "required_use", max_depth=4, max_leaves=8, flags=pool, leaf_pool=pool, max_top=3)
    s = " ".join(D.render_words(nodes))
    # forced sets are sparse (most flags free), preferred any subset
    bits = nflags + 1
    m_ft = rnd.getrandbits(bits) & rnd.getrandbits(bits)
    m_ff = rnd.getrandbits(bits) & rnd.getrandbits(bits)
    if rnd.random() < 0.35:
        m_ft = m_ff = 0
    m_pt = rnd.getrandbits(bits) if rnd.random() < 0.7 else 0
    return {"s": s, "masks": [m_ft, m_ff, m_pt]}


def plan(tier, seed):
    n = {"quick": 200, "thorough": 30000}[tier]
    ntasks = {"quick": 8, "thorough": 16}[tier]
    return [{"task": "gen", "constraints": n} for _ in range(ntasks)]


def run_task(ctx, task, **kw):
    if task != "gen":
        raise core.HarnessError(f"unknown task {task}")
    strat = st.integers(0, (1 << D.SEED_BITS) - 1).map(build_case)
    core.hyp_run(ctx, strat, lambda c: check_constraint(ctx, c), kw["constraints"], chunk=100)


def replay(ctx, case):
    E = env()
    s = case["s"]
    tree = D.ref_parse(s, "required_use")
    restricts = core.guarded(ctx, {"s": s}, lambda: E.parse(s))
    if core.crashed(restricts):
        return
    check_one(ctx, s, tree, restricts, sorted(case["iuse"]), sorted(case["force_true"]), sorted(case["force_false"]),
              sorted(case["prefer_true"]))


def shrink_case(ctx, bucket, case):
    """structural shrinking of the constraint, then dropping members of the flag sets"""
    def still(c):
        sub = core.Ctx(ID, ctx.tier, ctx.seed)
        try:
            replay(sub, c)
        except (core.HarnessError, D.RefSyntaxError):
            return False
        finally:
            sub.cleanup()
        return bucket in sub.violations

    if not still(case):
        return None
    tree = D.ref_parse(case["s"], "required_use")

    def variants(nodes):
        for i, nd in enumerate(nodes):
            if len(nodes) > 1:
                yield nodes[:i] + nodes[i + 1:]
            if nd[0] != "leaf":
                ch = D.kids(nd)
                yield nodes[:i] + ch + nodes[i + 1:]
                for sub in variants(ch):
                    if sub:
                        new = [nd[0], nd[1], sub] if nd[0] == "cond" else [nd[0], sub]
                        yield nodes[:i] + [new] + nodes[i + 1:]

    best = dict(case)
    changed, rounds = True, 0
    while changed and rounds < 200:
        changed = False
        rounds += 1
        for v in variants(tree):
            if not v:
                continue
            c = dict(best, s=" ".join(D.render_words(v)))
            if still(c):
                tree, best, changed = v, c, True
                break
        if changed:
            continue
        for k in ("prefer_true", "force_false", "force_true", "iuse"):
            for x in list(best[k]):
                c = dict(best, **{k: [y for y in best[k] if y != x]})
                if still(c):
                    best, changed = c, True
                    break
            if changed:
                break
    return best
