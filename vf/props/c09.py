"""C09 Dependency strings round-trip and USE evaluation preserves meaning.

Generated: grammar strings (vf/gen/depsets.py) in six flavours, each parsed the way the real
caller does it (ebuild_src.base attributes with EAPI 8 for DEPEND / LICENSE / RESTRICT /
REQUIRED_USE / distfiles; DepSet.parse with the SRC_URI arguments of ebuild_src and a
pair-preserving element function for "uri -> name"), random whitespace, nested all-of / any-of /
^^ / ?? / (negated) conditionals, atoms with x? / !x? / x= / !x= use deps; plus token-level
corruptions of such strings.

Oracles (all independent of pkgcore's parser / evaluator):
  round trip   t = str(parse(s)) must parse, parse(t) == parse(s) (pkgcore's == and the harness'
               structural reading), str(parse(t)) == t.
  rejection    a corrupted string for which the *reference* parser (depsets.ref_parse) reports
               unbalanced parentheses or a dangling operator must raise DepsetParseError
               (MetadataException caused by it when going through the package attribute).
  evaluation   for every subset F of the flags the string mentions: evaluate_depset(F) holds no
               conditional and no x?/x= atom, and for every token set T over the tokens of the
               expected/actual result: sat(result, T) == sat(reference reduction of the generated
               tree under F, T).  REQUIRED_USE additionally: all(node.match(T)) (what
               ebd._check_required_use does) agrees too.

Dropped / simplified w.r.t. DESIGN.md: tristate_filter evaluation is not exercised (not in the
statement); bare "( ... )" groups are not generated for RESTRICT / SRC_URI (ebuild_src parses
them with operators={} which rejects them; the statement does not speak about it); an emptied
group *directly inside* || ^^ ?? has two defensible readings (dropped vs. satisfied member) -
points where they differ are counted (counter ambiguous_points) and not judged.  Empty groups
"( )" are not generated and a corruption that only produces one is not judged (the statement
names unbalanced parentheses and dangling operators).

Counters in the evidence: flagset_evaluations (evaluate_depset calls), sat_points (token sets
compared), anyof_emptied_points ((string, F) pairs where an any-of loses all members).

Findings on the unchanged tree (2fa9c05), see proposed_fixes/C09-*.md:
  roundtrip:str-of-xor-amo                          str() of ^^ / ?? groups does not parse back
  eval:meaning:single-member-amo:{parse,evaluate}   "?? ( a )" collapsed to "a"
  reject:accepted:arrow-before-paren                "uri -> )" takes the parenthesis as file name
  roundtrip:depset-eq-false:equal-members-hash-differently   atom hash vs eq (fixed by C02-atom-hash)
"""
from hypothesis import strategies as st

from .. import core
from ..gen import depsets as D

ID = "C09"
TITLE = "Dependency strings round-trip and USE evaluation preserves meaning"
LEVEL = "exploration"
TECHNIQUE = "grammar-based generation; round trip + reference parser for rejection + exhaustive (flag set x token set) differential vs. independent propositional evaluator"
DESIGN_REF = "DESIGN.md §3 C09"
LEVEL_TEXT = (
    "Generated-input search: grammar-generated DEPEND/LICENSE/RESTRICT/SRC_URI/REQUIRED_USE strings (depth <= 4) "
    "and one-edit corruptions; per string every subset of the referenced flags and every subset of the result "
    "tokens is evaluated against a reference reading written from PMS 8.2 and the property statement."
)
LEVEL_NOTE = "Trusted: vf/gen/depsets.py (reference parser, reduction under a flag set, propositional sat). No proof of absence."
RULE = (
    "strings rendered from random trees (<=4 cond flags, <=5 distinct leaves, <=9 leaves, depth<=4, random whitespace) "
    "per flavour dep|license|restrict|src_uri|src_uri_df|required_use; corruptions: delete/insert/glue a parenthesis, "
    "operator at end, operator before a non-parenthesis, '->' at end. non-trivial (valid) = a conditional directly "
    "inside || ^^ ?? or nesting depth >= 3 or a x?/x= use-dep atom; non-trivial (corrupt) = base string has a group; "
    "distinct = distinct (flavour, string)"
)
ASSUMPTIONS = [
    "reference reading: unmet conditionals vanish, emptied groups vanish (== satisfied under all-of); an emptied group directly inside || ^^ ?? is not judged",
    "strings are parsed exactly as ebuild_src.base does for EAPI 8 (atom_kls, transitive use atoms, operators per attribute)",
    "blockers are not generated directly inside || (PMS forbids it)",
]
BUDGET = {"quick": 50, "thorough": 900}

MAX_T_TOKENS = 9


class Env:
    def __init__(self):
        from pkgcore.ebuild import atom as atom_mod
        from pkgcore.ebuild import conditionals
        from pkgcore.ebuild.eapi import get_eapi
        from pkgcore.ebuild.ebuild_src import base as ebuild
        from pkgcore.ebuild.errors import DepsetParseError
        from pkgcore.package.errors import MetadataException
        from pkgcore.restrictions import boolean, packages, values

        self.atom = atom_mod.atom
        self.transitive = atom_mod.transitive_use_atom
        self.DepSet = conditionals.DepSet
        self.boolean, self.packages, self.values = boolean, packages, values
        self.DepsetParseError, self.MetadataException = DepsetParseError, MetadataException
        self.eapi = get_eapi("8", suppress_unsupported=True)
        self.ebuild = ebuild

    def _pkg(self, key, s):
        o = self.ebuild(None, "dev-util/diffball-0.1-r1")
        object.__setattr__(o, "eapi", self.eapi)
        object.__setattr__(o, "data", {key: s})
        return o

    @staticmethod
    def _pair(uri, filename=None):
        return uri if filename is None else f"{uri} -> {filename}"

    def parse(self, flavor, s):
        """may raise DepsetParseError / MetadataException(cause DepsetParseError)"""
        if flavor == "dep":
            return self._pkg("RDEPEND", s).rdepend
        if flavor == "license":
            return self._pkg("LICENSE", s).license
        if flavor == "restrict":
            return self._pkg("RESTRICT", s).restrict
        if flavor == "required_use":
            return self._pkg("REQUIRED_USE", s).required_use
        if flavor == "src_uri_df":
            return self._pkg("SRC_URI", s).distfiles
        if flavor == "src_uri":
            # arguments of ebuild_src.generate_fetchables / distfiles, element function keeps both halves
            return self.DepSet.parse(
                s, str, operators={}, attr="SRC_URI", element_func=self._pair,
                allow_src_uri_file_renames=self.eapi.options.src_uri_renames,
            )
        raise core.HarnessError(f"unknown flavor {flavor}")

    def is_reject(self, exc):
        if isinstance(exc, self.DepsetParseError):
            return True
        return isinstance(exc, self.MetadataException) and isinstance(exc.__cause__, self.DepsetParseError)

    # pkgcore object -> JSON tree (a *reader* of the result; no evaluation logic of pkgcore involved)
    def to_tree(self, obj, flavor, problems):
        b = self.boolean
        if isinstance(obj, self.DepSet):
            return [self.to_tree(x, flavor, problems) for x in obj.restrictions]
        if isinstance(obj, self.packages.Conditional):
            problems.append("conditional")
            vals = sorted(obj.restriction.vals)
            flag = ("!" if obj.restriction.negate else "") + (vals[0] if len(vals) == 1 else repr(vals))
            return ["cond", flag, [self.to_tree(x, flavor, problems) for x in obj.payload]]
        if isinstance(obj, self.atom):
            if isinstance(obj, self.transitive):
                problems.append("transitive_atom")
            return ["leaf", D.canon_atom(str(obj))]
        if isinstance(obj, self.values.ContainmentMatch):
            vals = sorted(obj.vals)
            if len(vals) != 1 or obj.all:
                problems.append("odd_containment")
            return ["leaf", ("!" if obj.negate else "") + str(vals[0])]
        if isinstance(obj, str):
            return ["leaf", obj]
        for cls, k in ((b.OrRestriction, "any"), (b.AndRestriction, "all"), (b.JustOneRestriction, "xor"),
                       (b.AtMostOneOfRestriction, "amo")):
            if isinstance(obj, cls):
                if obj.negate:
                    problems.append("negated_group")
                return [k, [self.to_tree(x, flavor, problems) for x in obj.restrictions]]
        problems.append(f"unknown_node:{type(obj).__name__}")
        return ["leaf", repr(obj)]


_ENV = None


def env():
    global _ENV
    if _ENV is None:
        _ENV = Env()
    return _ENV


def _canon_top(nodes):
    return sorted(core.jdump(x) for x in nodes)


def check_valid(ctx, case):
    E = env()
    flavor, s = case["flavor"], case["s"]
    rec = {"kind": "valid", "flavor": flavor, "s": s}
    try:
        tree = D.ref_parse(s, flavor)
    except D.RefSyntaxError as e:
        raise core.HarnessError(f"generator produced a string the reference parser rejects: {s!r} {e}")
    if "tree" in case and case["tree"] != tree:
        raise core.HarnessError(f"reference parser disagrees with the generator's tree for {s!r}")
    cl = D.classify(tree, flavor)
    flags = sorted(D.all_flags(tree, flavor))
    nontriv = any(c in cl for c in ("cond_under_any", "cond_under_xor", "cond_under_amo", "depth>=3", "transitive_use_atom"))
    ctx.case(rec, nontrivial=nontriv, classes=[flavor] + [f"{c}" for c in cl], key=f"{flavor}|{s}")

    # ---- parse -------------------------------------------------------------------------------
    def do_parse(text):
        try:
            return E.parse(flavor, text)
        except (E.DepsetParseError, E.MetadataException) as e:
            if E.is_reject(e):
                return e
            raise

    d0 = core.guarded(ctx, rec, lambda: do_parse(s))
    if core.crashed(d0):
        return
    if isinstance(d0, Exception):
        ctx.violation(f"parse:rejects-valid:{flavor}", rec, f"grammar-valid {flavor} string rejected: {d0}")
        return

    # ---- round trip ----------------------------------------------------------------------------
    def roundtrip():
        t = str(d0)
        p = []
        t0 = E.to_tree(d0, flavor, p)
        has_xa = any(nd[0] in ("xor", "amo") for nd, _, _ in D.walk(t0))
        d1 = do_parse(t)
        if isinstance(d1, Exception):
            b = "roundtrip:str-of-xor-amo" if has_xa else "roundtrip:str-unparseable:other"
            ctx.violation(b, rec, f"str(parse(s))={t!r} does not parse: {d1}")
            return
        t1 = E.to_tree(d1, flavor, p)
        same_tree = _canon_top(t0) == _canon_top(t1)
        if not same_tree:
            b = "roundtrip:str-of-xor-amo" if has_xa else "roundtrip:not-equal:other"
            ctx.violation(b, rec, f"str(parse(s))={t!r} parses to a different structure: {t1!r} vs {t0!r}")
            return
        if not (d1 == d0) or (d1 != d0):
            why = _eq_diag(d0, d1)
            ctx.violation(f"roundtrip:depset-eq-false:{why}", rec,
                          f"str(parse(s))={t!r} parses to the same tree {t1!r} but DepSet == says unequal ({why})")
            return
        t2 = str(d1)
        if t2 != t:
            ctx.violation("roundtrip:str-not-idempotent", rec, f"{t!r} -> {t2!r}")

    core.guarded(ctx, rec, roundtrip)

    # ---- evaluation ----------------------------------------------------------------------------
    negleaf = flavor == "required_use"
    seen = set()
    emptiable = [nd for nd, _, _ in D.walk(tree) if nd[0] == "any" and D.only_conds_below(nd)]

    def evaluate():
        for F in D.subsets(flags):
            exp_b, exp_a = D.reduce_tree(tree, F, flavor)
            if emptiable and any(not D.reduce_tree([nd], F, flavor)[0] for nd in emptiable):
                ctx.count("anyof_emptied_points")
            ev = d0.evaluate_depset(sorted(F))
            problems = []
            got = E.to_tree(ev, flavor, problems)
            ctx.count("flagset_evaluations")
            if problems:
                ctx.violation(f"eval:not-conditional-free:{problems[0]}", dict(rec, F=sorted(F)),
                              f"evaluate_depset({sorted(F)}) still holds {problems}: {str(ev)!r}")
                continue
            memo = (core.jdump(exp_b), core.jdump(exp_a), core.jdump(got))
            if memo in seen:
                continue
            seen.add(memo)
            toks = sorted(D.tree_tokens(exp_b, negleaf) | D.tree_tokens(got, negleaf))[:MAX_T_TOKENS]
            for T in D.subsets(toks):
                want = D.sat(exp_b, T, negleaf)
                if exp_a is not None and D.sat(exp_a, T, negleaf) != want:
                    ctx.count("ambiguous_points")
                    continue
                have = D.sat(got, T, negleaf)
                ctx.count("sat_points")
                if have != want:
                    ctx.violation(
                        f"eval:meaning:{_diff_kind(tree, exp_b, got)}", dict(rec, F=sorted(F), T=sorted(T)),
                        f"under F={sorted(F)} the string means {D.join_words(D.render_words(exp_b), [' '])!r} "
                        f"but evaluate_depset gave {str(ev)!r}; token set {sorted(T)}: expected sat={want}, result sat={have}",
                    )
                    break
                if negleaf:
                    m = all(node.match(sorted(T)) for node in ev)
                    if m != want:
                        ctx.violation(
                            f"eval:match:{_diff_kind(tree, exp_b, got)}", dict(rec, F=sorted(F), T=sorted(T)),
                            f"under F={sorted(F)} evaluated {str(ev)!r}: all(node.match({sorted(T)}))={m}, reference={want}",
                        )
                        break

    core.guarded(ctx, rec, evaluate)


def _eq_diag(d0, d1):
    """why do two DepSets with the same tree compare unequal: members equal pairwise but hash differently?"""
    r0, r1 = list(d0.restrictions), list(d1.restrictions)
    if len(r0) == len(r1) and all(a == b for a, b in zip(r0, r1)):
        if any(hash(a) != hash(b) for a, b in zip(r0, r1)):
            return "equal-members-hash-differently"
        return "equal-members"
    return "members-differ"


def _amo1(nodes):
    return any(nd[0] == "amo" and len(nd[1]) == 1 for nd, _, _ in D.walk(nodes))


def _diff_kind(tree, exp, got):
    """root-cause hint for the bucket"""
    if _amo1(tree):
        return "single-member-amo:parse"
    if _amo1(exp):
        return "single-member-amo:evaluate"

    def kinds(nodes):
        out = {}
        for nd, _, _ in D.walk(nodes):
            if nd[0] != "leaf":
                out[nd[0]] = out.get(nd[0], 0) + 1
        return out
    ke, kg = kinds(exp), kinds(got)
    diff = sorted(k for k in set(ke) | set(kg) if ke.get(k, 0) != kg.get(k, 0))
    if diff:
        return "group-" + "+".join(diff)
    if D.tree_tokens(exp) != D.tree_tokens(got):
        return "tokens"
    return "shape"


def check_corrupt(ctx, case):
    E = env()
    flavor, s = case["flavor"], case["s"]
    rec = {"kind": "corrupt", "flavor": flavor, "s": s, "how": case.get("how", "?")}
    try:
        D.ref_parse(s, flavor)
        reason = None
    except D.RefSyntaxError as e:
        reason = e.reason
    has_group = "(" in (case.get("base") or s).split() or ")" in s.split()
    ctx.case(rec, nontrivial=bool(reason in ("unbalanced", "dangling") and has_group),
             classes=["corrupt", f"corrupt:{rec['how']}", f"ref:{reason}"], key=f"corrupt|{flavor}|{s}")
    if reason not in ("unbalanced", "dangling"):
        # the edit happened to produce a grammatical string (or only an empty group): nothing demanded
        ctx.count("corruption_not_judged")
        return

    def go():
        try:
            d = E.parse(flavor, s)
        except (E.DepsetParseError, E.MetadataException) as e:
            if E.is_reject(e):
                return None
            raise
        return d

    d = core.guarded(ctx, rec, go)
    if core.crashed(d):
        return
    if d is not None:
        how = rec["how"] if "how" in case else "replay"
        w = s.split()
        arrow = flavor in D.RENAMES and any(a == "->" and b in ("(", ")", "->") for a, b in zip(w, w[1:]))
        ctx.violation(f"reject:accepted:{'arrow-before-paren' if arrow else reason}", rec,
                      f"{reason} {flavor} string {s!r} was accepted as {str(d)!r} (corruption {how})")


def _strategy(flavors):
    return st.one_of([D.valid_case(f) for f in flavors]), st.one_of([D.corrupt_case(f) for f in flavors])


def plan(tier, seed):
    # (flavours, share): dependency atoms and REQUIRED_USE carry the operators the property is about
    groups = [["dep"], ["dep"], ["required_use"], ["required_use"], ["license"], ["license", "required_use"],
              ["restrict", "src_uri"], ["src_uri_df", "src_uri"]]
    valid, corrupt, reps = {"quick": (1200, 600, 1), "thorough": (100000, 40000, 2)}[tier]
    return [{"task": "gen", "flavors": g, "valid": valid, "corrupt": corrupt} for _ in range(reps) for g in groups]


def run_task(ctx, task, **kw):
    if task != "gen":
        raise core.HarnessError(f"unknown task {task}")
    sv, sc = _strategy(kw["flavors"])
    core.hyp_run(ctx, sc, lambda c: check_corrupt(ctx, c), kw["corrupt"], chunk=300, seed_salt=1)
    core.hyp_run(ctx, sv, lambda c: check_valid(ctx, c), kw["valid"], chunk=300)


def replay(ctx, case):
    if case.get("kind") == "corrupt":
        check_corrupt(ctx, case)
    else:
        check_valid(ctx, {"flavor": case["flavor"], "s": case["s"]})


def shrink_case(ctx, bucket, case):
    """greedy structural shrinking on the reference tree (valid cases) / word deletion (corrupt cases)"""
    def still(c):
        sub = core.Ctx(ID, ctx.tier, ctx.seed)
        try:
            replay(sub, c)
        except core.HarnessError:
            return False
        finally:
            sub.cleanup()
        return bucket in sub.violations

    flavor = case["flavor"]
    if case.get("kind") == "corrupt":
        words = case["s"].split()
        changed = True
        while changed:
            changed = False
            for i in range(len(words)):
                w2 = words[:i] + words[i + 1:]
                c = dict(case, s=" ".join(w2))
                if w2 and still(c):
                    words, changed = w2, True
                    break
        return dict(case, s=" ".join(words))

    try:
        tree = D.ref_parse(case["s"], flavor)
    except D.RefSyntaxError:
        return None

    def variants(nodes):
        # drop a node, or replace a group by its members
        for i, nd in enumerate(nodes):
            if len(nodes) > 1:
                yield nodes[:i] + nodes[i + 1:]
            if nd[0] != "leaf":
                ch = D.kids(nd)
                yield nodes[:i] + ch + nodes[i + 1:]
                for sub in variants(ch):
                    if sub:
                        new = [nd[0], nd[1], sub] if nd[0] == "cond" else [nd[0], sub]
                        yield nodes[:i] + [new] + nodes[i + 1:]

    def mk(nodes):
        return {"kind": "valid", "flavor": flavor, "s": " ".join(D.render_words(nodes))}

    best = mk(tree) if still(mk(tree)) else None
    if best is None:
        return None
    changed = True
    rounds = 0
    while changed and rounds < 200:
        changed = False
        rounds += 1
        for v in variants(tree):
            if not v:
                continue
            c = mk(v)
            if still(c):
                tree, best, changed = v, c, True
                break
    # keep F/T of the original message out: replay recomputes them
    return best
