"""C21 Protected configuration files are never silently overwritten or removed.

What runs: the real MergeEngine (install / replace / uninstall, hook order of
pkgcore.operations.domain, disable_plugins=True) with the triggers `merge`, `unmerge`,
`BaseSystemUnmergeProtection`, `ebuild.triggers.ConfigProtectInstall(extra_protects, extra_disables)`
(+ its _restore companion) and `ConfigProtectUninstall`, over a generated live root that holds
/etc/env.d files (CONFIG_PROTECT / CONFIG_PROTECT_MASK / COLLISION_IGNORE, several files, decoy
files env-update must skip), live config files, pending `._cfgNNNN_<name>` updates (identical to the
incoming file or not, gaps in the numbering), for a non-/ offset and -- process chroot()ed into the
scratch root -- for offset "/".  Packages are built as in C20 (vf/gen/mergefs.py).  The directory
vocabulary contains names that are bare string prefixes of each other (etc/masked, etc/masked.d,
etc/env.d.local, opt/app/conf.d ...) and the total number of mask entries is drawn as 0 / 1 / several
(each branch of the filter construction), both counted as classes.

Oracle (reference written from the property statement, vf-side only; snapshots by vf/fsx.py):
  claimed(P)  P lies under a CONFIG_PROTECT directory (env.d of the root, constructor extras for the
              install side, "/etc" always), under no CONFIG_PROTECT_MASK directory, and is matched by
              no COLLISION_IGNORE token of any env.d file under the *widest* reading (fnmatch, directory
              prefix, token + "/*") nor by the built-in */.keep, */.keep_* -- so anything arguably
              ignored is simply not judged.
  install     for every incoming regular file over a live regular file with different bytes and
              claimed(P): the live file is byte- and metadata-identical after the merge phase; pending
              updates that existed are unchanged; if one of them already has the incoming bytes no
              further ._cfg file appears for that name, otherwise exactly one new ._cfgNNNN_<name> with
              the incoming bytes appears and NNNN exceeds every existing number for that name;
              get_merged_cset() lists the real name and no ._cfg name.
  unmerge     (uninstall, and replace for files the new package dropped) a live regular file whose
              bytes differ from the recorded md5 and claimed(P) (env.d settings only: the trigger takes
              no extras) is identical after the unmerge phase.
Buckets name the root cause where it is observable: an exception the engine suppressed inside a
trigger (type@function, taken from the observer warning), else offset/root and mode.

Dropped: CONFIG_PROTECT file (non-directory) entries, "-token" incrementals, Portage's
longest-match rule between PROTECT and MASK (statement uses plain "not under MASK"), numbers >= 9000,
config files reached through symlinked directories (C20 covers aliasing).
"""
import copy
import fnmatch
import posixpath
import re

from hypothesis import strategies as st

from .. import core
from ..gen import mergefs as M

ID = "C21"
TITLE = "Protected configuration files are never silently overwritten or removed"
LEVEL = "exploration"
TECHNIQUE = "generated env.d settings / live config trees / pending ._cfg updates through the real MergeEngine + ConfigProtect triggers; snapshot oracle with reference protect rule"
DESIGN_REF = "DESIGN.md §3 C21"
LEVEL_TEXT = (
    "Generated-input search over env.d CONFIG_PROTECT/CONFIG_PROTECT_MASK/COLLISION_IGNORE settings (several files, "
    "directory and glob entries, trailing slashes, decoy files), constructor extras, live files, pending updates, "
    "identical/differing incoming and recorded contents, install/replace/uninstall, non-/ offset and chroot with offset /; "
    "each run judged from lstat-level snapshots and the recorded contents the engine reports."
)
LEVEL_NOTE = (
    "Trusted: vf/fsx.py snapshots, the reference claimed() rule in this module (deliberately lenient: anything arguably "
    "masked or ignored is not judged). No proof of absence."
)
RULE = (
    "case = (mode, chroot?, env.d files, extras, config slots {dir,name,live,incoming,recorded,pending[]}) drawn by "
    "hypothesis from a fixed vocabulary; non-trivial = the case contains at least one *claimed* slot whose live bytes "
    "differ from the incoming (install side) or recorded (unmerge side) bytes; classes count pending-identical / "
    "pending-other / masked / ignored / env.d-vs-extra protection / directory entries in COLLISION_IGNORE / offset kind / "
    "0, 1, 2+ CONFIG_PROTECT_MASK entries in total / subjects in directories whose name merely starts with a masked "
    "(or protected) directory name; "
    "distinct = canonical JSON of the case"
)
ASSUMPTIONS = [
    "env.d files are the source of CONFIG_PROTECT(_MASK)/COLLISION_IGNORE for the triggers (as the code reads them); make.conf values arrive as constructor extras",
    "env.d file-name rule (two leading digits, no .bak/~/._cfg) as implemented by env-update in Portage and pkgcore",
    "recorded contents have the vdb ContentsFile shape, new contents the livefs.scan(image, offset=image) shape",
    "runs as root; chroot(2) available",
]
BUDGET = {"quick": 25, "thorough": 840}

TRIGGERS = ["merge", "unmerge", "basesys", "cfg_install", "cfg_uninstall"]

PROT = ["/opt/app/conf", "/usr/share/cfg", "/var/lib/app/etc", "/opt/app/conf/"]
MASKS = ["/etc/masked", "/opt/app/conf/skip", "/usr/share/cfg/gen", "/etc/app/sub", "/etc/masked/", "/etc/env.d"]
IGNS = ["/etc/ign.d", "/etc/ign.d/*", "/etc/app/*.local", "/opt/app/conf/ignfile", "*/zz.ignored", "/nonexistent/thing"]
CFGDIRS = ["etc", "etc/app", "etc/app/sub", "etc/masked", "etc/ign.d", "opt/app/conf", "opt/app/conf/skip",
           "usr/share/cfg", "usr/share/cfg/gen", "var/lib/app/etc", "usr/lib/app", "opt/app",
           # names that merely *start with* a maskable / protectable directory name (no "/" boundary)
           "etc/masked.d", "etc/masked-site", "etc/env.d.local", "etc/app/sub.d", "opt/app/conf/skip2",
           "usr/share/cfg/gen.old", "opt/app/conf.d", "usr/share/cfgs"]
NAMES = ["a.conf", "b", "x.local", "ignfile", "with space", ".keep_x", "zz.ignored", "masked.conf"]
DECOYS = ["10x.bak", "._cfg0000_10app", "x1", "99~", "7"]
DECOY_TEXT = 'CONFIG_PROTECT_MASK="/etc /opt /usr /var"\n'


def _parents(p):
    out = []
    while "/" in p:
        p = p.rsplit("/", 1)[0]
        out.append(p)
    return out


@st.composite
def cases(draw):
    mode = draw(st.sampled_from(["install", "install", "replace", "replace", "uninstall"]))
    chroot = draw(st.booleans())
    envd = []
    for fname in draw(st.lists(st.sampled_from(["00basic", "10app", "50cfg", "99local"]), max_size=3, unique=True)):
        v = {}
        if draw(st.booleans()):
            v["CONFIG_PROTECT"] = draw(st.lists(st.sampled_from(PROT), min_size=1, max_size=2, unique=True))
        if draw(st.integers(0, 4)) == 0:
            v["COLLISION_IGNORE"] = draw(st.lists(st.sampled_from(IGNS), min_size=1, max_size=2, unique=True))
        envd.append({"name": fname, "vars": v})
    if draw(st.integers(0, 5)) == 0:
        envd.append({"name": draw(st.sampled_from(DECOYS)), "decoy": True, "vars": {}})
    protect = draw(st.lists(st.sampled_from(PROT), max_size=1))
    # CONFIG_PROTECT_MASK: none / exactly one / several entries in total, spread over env.d files and
    # (install side only: the unmerge trigger takes none) the constructor extras
    nmask = draw(st.sampled_from([0, 0, 1, 1, 1, 2, 3]))
    mtokens = draw(st.lists(st.sampled_from(MASKS), min_size=nmask, max_size=nmask, unique=True))
    mask = []
    real = [f for f in envd if not f.get("decoy")]
    for tok in mtokens:
        if mode != "uninstall" and draw(st.integers(0, 3)) == 0:
            mask.append(tok)
            continue
        if not real:
            real.append({"name": "10app", "vars": {}})
            envd.insert(0, real[0])
        f = real[draw(st.integers(0, len(real) - 1))]
        f["vars"].setdefault("CONFIG_PROTECT_MASK", []).append(tok)
    # directories whose path has a configured mask entry as a bare string prefix
    mask_sibs = [d for d in CFGDIRS if any(("/" + d).startswith(m.rstrip("/")) and not _under("/" + d, m) for m in mtokens)]
    mask_under = [d for d in CFGDIRS if any(_under("/" + d, m) for m in mtokens)]

    root, old, new = [], [], []
    used = set()
    old_dirs = set()
    # a COLLISION_IGNORE token that names an existing directory is a "directory entry"
    if any("/etc/ign.d" in f["vars"].get("COLLISION_IGNORE", ()) for f in envd) and draw(st.integers(0, 9)) < 7:
        root.append({"path": "etc/ign.d", "type": "dir"})
    for i in range(draw(st.integers(1, 5))):
        where = draw(st.integers(0, 3))
        if mask_sibs and where == 0:
            d = draw(st.sampled_from(mask_sibs))
        elif mask_under and where == 1:
            d = draw(st.sampled_from(mask_under))
        else:
            d = draw(st.sampled_from(CFGDIRS))
        name = draw(st.sampled_from(NAMES))
        if (d, name) in used:
            continue
        used.add((d, name))
        p = f"{d}/{name}"
        live = draw(st.sampled_from(["L", "L", "L", "L", None]))
        if live:
            root.append({"path": p, "type": "file", "data": f"L{i}"})
        else:
            root.append({"path": d, "type": "dir"})
        inc = rec = None
        if mode in ("install", "replace") and draw(st.integers(0, 9)) < (8 if mode == "install" else 5):
            inc = f"L{i}" if draw(st.integers(0, 4)) == 0 else f"N{i}"
            new.append({"path": p, "type": "file", "data": inc})
        if mode in ("uninstall", "replace") and draw(st.integers(0, 9)) < 8:
            rec = f"L{i}" if draw(st.integers(0, 2)) == 0 else f"R{i}"
            old.append({"path": p, "type": "file", "data": rec})
            old_dirs.update(_parents(p))
        # pending updates
        nums = draw(st.lists(st.integers(0, 12), max_size=3, unique=True)) if draw(st.booleans()) else []
        ident_at = draw(st.integers(0, 3))
        for k, n in enumerate(sorted(nums)):
            data = (inc or f"N{i}") if k == ident_at else f"P{i}.{k}"
            root.append({"path": f"{d}/._cfg{n:04d}_{name}", "type": "file", "data": data})
        if draw(st.integers(0, 7)) == 0:
            root.append({"path": f"{d}/._cfg0007_other", "type": "file", "data": "unrelated"})
    case = {
        "mode": mode, "chroot": chroot, "envd": envd, "protect": protect, "mask": mask,
        "root": root,
        "old": [{"path": d, "type": "dir"} for d in sorted(old_dirs)] + old,
        "new": new,
    }
    return case


# ---------------------------------------------------------------------------------------------
# reference rule

def _under(path, d):
    d = posixpath.normpath(d).rstrip("/")
    return path == d or path.startswith(d + "/")


def envd_counts(name):
    """env-update's file-name rule"""
    return not (name.endswith((".bak", "~")) or name.startswith("._cfg") or len(name) <= 2 or not name[:2].isdigit())


def settings(case):
    prot, mask, ign = [], [], []
    for f in case.get("envd", ()):
        if f.get("decoy") or not envd_counts(f["name"]):
            continue
        prot += f["vars"].get("CONFIG_PROTECT", [])
        mask += f["vars"].get("CONFIG_PROTECT_MASK", [])
        ign += f["vars"].get("COLLISION_IGNORE", [])
    return prot, mask, ign


def claimed(path, prot, mask, ign):
    """path: "/etc/app/a.conf" """
    if not any(_under(path, d) for d in list(prot) + ["/etc"]):
        return False
    if any(_under(path, d) for d in mask):
        return False
    for pat in list(ign) + ["*/.keep", "*/.keep_*"]:
        if fnmatch.fnmatch(path, pat) or _under(path, pat) or fnmatch.fnmatch(path, pat.rstrip("/") + "/*"):
            return False
    return True


def materialise(case):
    """the mergefs case: env.d files become root files"""
    c = {k: case[k] for k in ("mode", "chroot", "old", "new", "protect", "mask")}
    root = list(case["root"])
    for f in case.get("envd", ()):
        if f.get("decoy"):
            text = DECOY_TEXT
        else:
            text = "".join(f'{k}="{" ".join(v)}"\n' for k, v in sorted(f["vars"].items()))
        root.append({"path": "etc/env.d/" + f["name"], "type": "file", "data": text})
    c["root"] = root
    return c


# ---------------------------------------------------------------------------------------------

_F = ("type", "mode", "uid", "gid", "sha", "mtime_ns")
_CFG = re.compile(r"^\._cfg(\d{4})_(.*)$", re.S)


def same_entry(a, b):
    if a is None or b is None:
        return a is b
    return all(a.get(f) == b.get(f) for f in _F)


def _suppressed(warns):
    """'Type@function' of an exception the engine swallowed inside a trigger, or None"""
    for w in warns:
        if "unhandled exception" not in w and "Traceback" not in w:
            continue
        lines = [x for x in w.strip().splitlines() if x.strip()]
        typ = lines[-1].split(":")[0].strip()
        fn = None
        for ln in lines:
            m = re.search(r'File ".*?/pkgcore/.*?", line \d+, in (\w+)', ln)
            if m:
                fn = m.group(1)
        return f"{typ}@{fn}"
    return None


def pending(snap, d, name):
    out = {}
    pre = d + "/"
    for p, e in snap.items():
        if p.startswith(pre) and "/" not in p[len(pre):]:
            m = _CFG.match(p[len(pre):])
            if m and m.group(2) == name and e["type"] == "file":
                out[int(m.group(1))] = e["sha"]
    return out


def subjects(case, s0):
    """(install_subjects, unmerge_subjects): claimed slots whose live bytes differ"""
    prot, mask, ign = settings(case)
    ins, unm = [], []
    newpaths = {e["path"] for e in case["new"]}
    if case["mode"] in ("install", "replace"):
        for e in case["new"]:
            live = s0.get(e["path"])
            if e["type"] == "file" and live is not None and live["type"] == "file" \
                    and live["sha"] != M.sha(e.get("data", "")) \
                    and claimed("/" + e["path"], prot + list(case.get("protect", ())), mask + list(case.get("mask", ())), ign):
                ins.append(e)
    if case["mode"] in ("uninstall", "replace"):
        for e in case["old"]:
            live = s0.get(e["path"])
            if e["type"] == "file" and e["path"] not in newpaths and live is not None and live["type"] == "file" \
                    and live["sha"] != M.sha(e.get("data", "")) and claimed("/" + e["path"], prot, mask, ign):
                unm.append(e)
    return ins, unm


def classify(case, s0, ins, unm):
    prot, mask, ign = settings(case)
    cl = [case["mode"], "chroot" if case["chroot"] else "offset"]
    if ins:
        cl.append("install_subject")
    if unm:
        cl.append("unmerge_subject")
        if case["mode"] == "replace":
            cl.append("replace_dropped_modified")
    for e in ins:
        d, name = e["path"].rsplit("/", 1)
        pend = pending(s0, d, name)
        if pend:
            cl.append("pending_exists")
            if M.sha(e["data"]) in pend.values():
                cl.append("pending_identical")
                if any(v != M.sha(e["data"]) for v in pend.values()):
                    cl.append("pending_identical_among_others")
            else:
                cl.append("pending_all_different")
            if max(pend) + 1 != len(pend):
                cl.append("pending_gap")
        path = "/" + e["path"]
        if not _under(path, "/etc"):
            if any(_under(path, x) for x in prot):
                cl.append("protected_by_envd")
            elif any(_under(path, x) for x in case.get("protect", ())):
                cl.append("protected_by_extra_only")
    for e in case["new"] + case["old"]:
        path = "/" + e["path"]
        if e["type"] != "file":
            continue
        if any(_under(path, x) for x in mask + list(case.get("mask", ()))):
            cl.append("slot_masked")
        if not claimed(path, ["/"], [], ign):
            cl.append("slot_ignored")
        if any(path.startswith(x.rstrip("/")) and not _under(path, x) for x in prot + list(case.get("protect", ()))):
            cl.append("slot_prefix_sibling_of_protect")
    allmask = set(mask) | (set(case.get("mask", ())) if case["mode"] != "uninstall" else set())
    cl.append("mask_total_0" if not allmask else "mask_total_1" if len(allmask) == 1 else "mask_total_2plus")
    for e in ins + unm:
        path = "/" + e["path"]
        if any(path.startswith(m.rstrip("/")) and not _under(path, m) for m in allmask):
            cl.append("subject_prefix_sibling_of_mask")
            if len(allmask) == 1:
                cl.append("subject_prefix_sibling_of_single_mask")
    if ign:
        cl.append("collision_ignore_set")
        if any(("*" not in x) and (x.lstrip("/") in s0 and s0[x.lstrip("/")]["type"] == "dir") for x in ign):
            cl.append("collision_ignore_dir_entry")
    if any(f.get("decoy") for f in case.get("envd", ())):
        cl.append("envd_decoy")
    if len([f for f in case.get("envd", ()) if not f.get("decoy")]) > 1:
        cl.append("envd_multi")
    return sorted(set(cl)), bool(ins or unm)


def oracle_install(ctx, case, ins, s0, after, res):
    where = "root" if case["chroot"] else "offset"
    sup = _suppressed(res["warn"])
    merged = res["merged"] or []
    merged_files = {loc for t, loc in merged if t == "file"}
    for e in ins:
        p = e["path"]
        d, name = p.rsplit("/", 1)
        want = M.sha(e["data"])
        if not same_entry(s0[p], after.get(p)):
            b = f"overwritten:suppressed:{sup}" if sup else f"overwritten:{where}"
            ctx.violation(b, case, f"protected {p!r} differed from the incoming file and was "
                          f"{'replaced by it' if after.get(p, {}).get('sha') == want else 'changed'} (suppressed exception: {sup})")
            continue
        before, now = pending(s0, d, name), pending(after, d, name)
        for k, v in before.items():
            if now.get(k) != v:
                ctx.violation("pending-update-clobbered", case, f"existing pending update ._cfg{k:04d}_{name} in {d!r} was overwritten/removed")
        ident = [k for k, v in before.items() if v == want]
        added = sorted(set(now) - set(before))
        if ident:
            if added:
                ctx.violation("cfg-number:identical-pending-not-reused", case,
                              f"._cfg{ident[0]:04d}_{name} already holds the incoming bytes, yet ._cfg{added[0]:04d}_{name} was written too")
        else:
            good = [k for k in added if now[k] == want]
            if len(good) != 1 or len(added) != 1:
                ctx.violation(f"update-not-written:{where}", case,
                              f"live {p!r} kept, but the incoming bytes are not in exactly one new ._cfgNNNN_{name} (new numbers {added})")
            elif before and good[0] <= max(before):
                ctx.violation("cfg-number:not-above-existing", case, f"new update got number {good[0]}, existing numbers {sorted(before)}")
        if "/" + p not in merged_files:
            ctx.violation("recorded-contents:real-name-missing", case, f"get_merged_cset() does not list /{p}")
    for t, loc in merged:
        if posixpath.basename(loc).startswith("._cfg") and not any(x["path"] == loc.lstrip("/") for x in case["new"]):
            ctx.violation("recorded-contents:cfg-name-recorded", case, f"get_merged_cset() lists {loc}")


def oracle_unmerge(ctx, case, unm, sa, sb, res):
    where = "root" if case["chroot"] else "offset"
    sup = _suppressed(res["warn"])
    for e in unm:
        p = e["path"]
        if not same_entry(sa[p], sb.get(p)):
            b = f"removed-modified:suppressed:{sup}" if sup else f"removed-modified:{case['mode']}:{where}"
            ctx.violation(b, case, f"protected {p!r} differs from what the package recorded but was "
                          f"{'removed' if sb.get(p) is None else 'changed'} by the unmerge (suppressed exception: {sup})")


def evaluate(ctx, case, record=True):
    mc = materialise(case)
    res = M.run_case(ctx, mc, TRIGGERS)
    snaps = res["snaps"]
    s0 = snaps["s0"]
    ins, unm = subjects(case, s0)
    if record:
        cl, nontriv = classify(case, s0, ins, unm)
        ctx.case(case, nontrivial=nontriv, classes=cl)
    if res["error"]:
        ctx.violation(res["error"]["bucket"] + ":" + res["error"]["phase"], case, res["error"]["msg"])
        return
    mode = case["mode"]
    if mode == "install":
        oracle_install(ctx, case, ins, s0, snaps["s1"], res)
    elif mode == "uninstall":
        oracle_unmerge(ctx, case, unm, s0, snaps["s1"], res)
    else:
        oracle_install(ctx, case, ins, s0, snaps["mid"], res)
        # the unmerge half must not touch what the merge half protected either
        for e in ins:
            d, name = e["path"].rsplit("/", 1)
            if not same_entry(snaps["mid"].get(e["path"]), snaps["s1"].get(e["path"])) \
                    or pending(snaps["mid"], d, name) != pending(snaps["s1"], d, name):
                ctx.violation("replace:unmerge-touched-protected", case, f"{e['path']!r} or its pending updates changed during the unmerge half")
        oracle_unmerge(ctx, case, unm, snaps["mid"], snaps["s1"], res)


def plan(tier, seed):
    if tier == "quick":
        return [{"task": "hyp", "examples": 300} for _ in range(16)]
    return [{"task": "hyp", "examples": 3000} for _ in range(32)]


def run_task(ctx, task, **kw):
    if task != "hyp":
        raise core.HarnessError(f"unknown task {task}")
    try:
        M.warm_up(ctx)
        core.hyp_run(ctx, cases(), lambda c: evaluate(ctx, c), kw["examples"], chunk=50)
    finally:
        M.cleanup()


def replay(ctx, case):
    try:
        M.warm_up(ctx)
        evaluate(ctx, case)
    finally:
        M.cleanup()


def shrink_case(ctx, bucket, case):
    """greedy entry removal keeping the bucket"""

    def hits(c):
        sub = core.Ctx(ID, ctx.tier, ctx.seed)
        try:
            evaluate(sub, c, record=False)
        except core.HarnessError:
            return False
        return bucket in sub.violations

    try:
        M.warm_up(ctx)
        cur = copy.deepcopy(case)
        if not hits(cur):
            return None
        changed = True
        while changed:
            changed = False
            for part in ("envd", "protect", "mask", "new", "old", "root"):
                i = 0
                while i < len(cur[part]):
                    cand = copy.deepcopy(cur)
                    del cand[part][i]
                    if hits(cand):
                        cur = cand
                        changed = True
                    else:
                        i += 1
        return cur
    finally:
        M.cleanup()
