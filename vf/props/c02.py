"""C02 Equality, ordering and hashing of package versions and atoms agree.

What is checked (all consequences of the property statement, nothing else): for a pair (a, b) of versioned CPVs,
of atoms, or of Revision objects

    (a != b) == not (a == b);  (a == b) == (b == a)
    a == b  =>  hash(a) == hash(b), not a < b, not a > b, a <= b, a >= b
    a != b  =>  exactly one of a < b, a > b
    a < b  <=>  b > a ;  a > b  <=>  b < a
    a <= b <=>  (a < b or a == b) ;  a >= b <=> (a > b or a == b)
    no comparison raises

and for short lists: `==` is transitive, len(set(xs)) == number of `==` classes, sorted() of different
permutations gives the same sequence up to `==` and is non-decreasing.  The list laws are only evaluated when
every pair inside the list passed the pair laws (otherwise the pair bucket already names the root cause).

The oracle is the set of laws itself (metamorphic); it does not say *which* spellings must be equal -- that the
version order is the PMS one is C01, that equal atoms match the same packages is C07.  Independence from the
implementation comes from the generator: pairs are built from harness-side field dicts, so the harness knows which
attribute(s) differ (bucket keys use that, never pkgcore's own view).

Dropped from DESIGN.md: nothing substantial; "random pairs" are 10% of the hypothesis pairs, the rest are
equivalent spellings / one-attribute mutations.  Versioned-vs-unversioned CPV comparisons (TypeError) are outside the
domain: no caller orders a versioned against an unversioned cpv.
"""
import itertools
import random

from hypothesis import strategies as st

from .. import core
from ..gen import eqpairs as G
from ..gen import versions as V

ID = "C02"
TITLE = "Equality, ordering and hashing of package versions and atoms agree"
LEVEL = "exploration"
TECHNIQUE = "metamorphic laws (eq/hash/6 rich comparisons/sort/set) over constructed equivalent-spelling and one-attribute-differing pairs; bounded grid + hypothesis"
DESIGN_REF = "DESIGN.md §3 C02"
LEVEL_TEXT = (
    "Generated-input search: every ordered pair of neighbouring points (exactly one attribute differs) of a bounded atom "
    "grid (thorough: exhaustive; quick: seeded slice), all ordered pairs of a bounded version universe as CPVs (slice in "
    "quick), hypothesis pairs/lists of atoms, CPVs and Revisions built as equivalent spellings or one-attribute mutations; "
    "each evaluated against the consistency laws of ==, !=, <, <=, >, >=, hash, sorted and set."
)
LEVEL_NOTE = "Laws are exactly those of the property statement; which attribute differs is known from the generator's field dicts. No proof of absence."
RULE = (
    "pairs of atoms / versioned CPVs / Revisions rendered from harness field dicts: equivalent spellings (1.0 vs 1.00, "
    "_alpha vs _alpha0, -r0/-r00/none, reordered USE deps, ! vs !!), single-attribute mutations (slot, sub-slot, slot "
    "operator, repo, USE dep, op, version, blocker, negate_vers, category, package) and 10% independent pairs; lists of "
    "3-6 for sort/set; bounded universes: families of PMS-equal spellings with every numeric position (components, each "
    "suffix number, revision) written with leading zeros / omitted vs 0, and all key pairs over category and package names "
    "that are prefixes of one another followed by + - . _ or a digit. non-trivial = texts differ and (objects compare equal, or at most two harness-side attributes "
    "differ); distinct = distinct (kind, text a, text b)"
)
ASSUMPTIONS = [
    "atoms are built with the default EAPI (latest PMS + repo ids) as pkgcore's own callers do for user-supplied atoms",
    "vf/ref/pms_version.py decides only the *label* verspell vs ver used in bucket keys, not the verdict",
]
BUDGET = {"quick": 50, "thorough": 900}


class Objs:
    def __init__(self):
        from pkgcore.ebuild import atom, cpv

        self.atom_mod, self.cpv = atom, cpv

    def build(self, kind, spec):
        if kind == "atom":
            text, nv = spec
            # disable_inst_caching: the two members of a pair must be independently constructed objects
            return self.atom_mod.atom(text, negate_vers=bool(nv), disable_inst_caching=True)
        if kind == "cpv":
            return self.cpv.VersionedCPV(spec)
        if kind == "ucpv":
            return self.cpv.UnversionedCPV(spec)
        if kind == "rev":
            return self.cpv.Revision("" if spec is None else spec)
        raise core.HarnessError(kind)


def spec_of(kind, f):
    if kind == "atom":
        return [G.render_atom(f), bool(f["nv"])]
    if kind in ("cpv", "ucpv"):
        return G.render_cpv(f)
    return f


def six(a, b):
    return {"eq": bool(a == b), "ne": bool(a != b), "lt": bool(a < b), "le": bool(a <= b), "gt": bool(a > b),
            "ge": bool(a >= b), "heq": hash(a) == hash(b)}


def pair_laws(ctx, kind, label, case, A, B):
    """evaluate the pair laws; returns True when all held"""
    r = core.guarded(ctx, case, lambda: (six(A, B), six(B, A)))
    if core.crashed(r):
        return False
    ab, ba = r
    ok = True

    def bad(law, msg):
        nonlocal ok
        ok = False
        ctx.violation(f"{kind}:{law}:{label}", case, f"{msg}; a?b={ab} b?a={ba}")

    if ab["ne"] != (not ab["eq"]):
        bad("ne-vs-eq", "a != b is not the negation of a == b")
    if ab["eq"] != ba["eq"]:
        bad("eq-asym", "a == b differs from b == a")
    order_bad = False
    if ab["eq"]:
        if not ab["heq"]:
            bad("eq-hash", "a == b but hash(a) != hash(b)")
        if ab["lt"] or ab["gt"]:
            order_bad = True
            bad("eq-ordered", "a == b but a < b or a > b")
        elif not (ab["le"] and ab["ge"]):
            order_bad = True
            bad("eq-le-ge", "a == b but not (a <= b and a >= b)")
    else:
        if not ab["lt"] and not ab["gt"]:
            order_bad = True
            bad("ne-unordered", "a != b but neither a < b nor a > b")
        elif ab["lt"] and ab["gt"]:
            order_bad = True
            bad("ne-both", "a < b and a > b")
    if ab["lt"] != ba["gt"] or ab["gt"] != ba["lt"]:
        if not order_bad:
            bad("mirror", "a < b differs from b > a (or a > b from b < a)")
        order_bad = True
    if not order_bad:
        if ab["le"] != (ab["lt"] or ab["eq"]):
            bad("le-def", "a <= b differs from (a < b or a == b)")
        if ab["ge"] != (ab["gt"] or ab["eq"]):
            bad("ge-def", "a >= b differs from (a > b or a == b)")
    return ok


def check_pair(ctx, objs, kind, fa, fb, record=True):
    sa, sb = spec_of(kind, fa), spec_of(kind, fb)
    case = {"kind": kind, "a": sa, "b": sb}
    if kind == "atom":
        d = G.diff_fields(fa, fb)
    elif kind in ("cpv", "ucpv"):
        d = G.cpv_diff(fa, fb)
    else:
        d = [] if fa == fb else (["revspell"] if V_rev_int(fa) == V_rev_int(fb) else ["rev"])
    label = G.diff_label(d)
    built = core.guarded(ctx, case, lambda: (objs.build(kind, sa), objs.build(kind, sb)))
    if core.crashed(built):
        return
    A, B = built
    if record:
        eq = core.guarded(ctx, case, lambda: bool(A == B))
        eq = False if core.crashed(eq) else eq
        textual = sa != sb
        cl = [f"{kind}", f"{kind}:diff:{label}"]
        if eq and textual:
            cl.append(f"{kind}:equal-but-spelled-differently")
        ctx.case(case, nontrivial=textual and (eq or len(d) <= 2), classes=cl, key=f"{kind}|{sa}|{sb}")
    pair_laws(ctx, kind, label, case, A, B)


def _atom_of(f, op):
    return G.normalise({"blk": "", "op": op, "cat": f["cat"], "pkg": f["pkg"], "ver": f.get("ver"), "rev": f.get("rev"),
                        "slot": None, "sub": None, "sop": None, "repo": None, "use": None, "nv": False})


def V_rev_int(r):
    return 0 if r in (None, "") else int(r)


def check_list(ctx, objs, kind, fs, perm_seed):
    specs = [spec_of(kind, f) for f in fs]
    case = {"kind": kind, "list": specs, "perm_seed": perm_seed}
    ctx.case(case, nontrivial=len({core.jdump(s) for s in specs}) >= 3, classes=[f"{kind}:list"],
             key=f"{kind}-list|" + core.jdump(specs))
    xs = core.guarded(ctx, case, lambda: [objs.build(kind, s) for s in specs])
    if core.crashed(xs):
        return
    # pair laws first, silently bucketed with the pair label; list laws only if all of them hold
    all_ok = True
    for i, j in itertools.combinations(range(len(xs)), 2):
        if kind == "atom":
            label = G.diff_label(G.diff_fields(fs[i], fs[j]))
        else:
            label = G.diff_label(G.cpv_diff(fs[i], fs[j]))
        pc = {"kind": kind, "a": specs[i], "b": specs[j]}
        if not pair_laws(ctx, kind, label, pc, xs[i], xs[j]):
            all_ok = False
    if not all_ok:
        ctx.count("lists_skipped_pair_violation")
        return

    def body():
        n = len(xs)
        eq = [[bool(xs[i] == xs[j]) for j in range(n)] for i in range(n)]
        # transitivity of ==
        for i, j, k in itertools.permutations(range(n), 3):
            if eq[i][j] and eq[j][k] and not eq[i][k]:
                ctx.violation(f"{kind}:eq-not-transitive", case, f"{specs[i]} == {specs[j]} == {specs[k]} but first != last")
                return
        classes = []
        for i in range(n):
            for c in classes:
                if eq[c[0]][i]:
                    c.append(i)
                    break
            else:
                classes.append([i])
        got = len(set(xs))
        if got != len(classes):
            ctx.violation(f"{kind}:set-size", case, f"len(set(xs))={got}, number of == classes={len(classes)}")
        rnd = random.Random(perm_seed)  # the permutation is part of the (replayable) case
        base = sorted(xs)
        for x, y in zip(base, base[1:]):
            if y < x:
                ctx.violation(f"{kind}:sorted-not-monotone", case, f"sorted() put {x} before {y} although the latter is smaller")
                return
        perms = [list(reversed(xs))]
        p = list(xs)
        rnd.shuffle(p)
        perms.append(p)
        for p in perms:
            s = sorted(p)
            if any(not (u == v) for u, v in zip(base, s)):
                ctx.violation(f"{kind}:sorted-permutation-dependent", case,
                              f"sorted(xs)={[str(u) for u in base]} sorted(perm)={[str(u) for u in s]}")
                return

    core.guarded(ctx, case, body)


# ---- plan ----------------------------------------------------------------------------------------------------------

def plan(tier, seed):
    # the cheap bounded universes come first: they must run even when a loaded machine hits the budget guard
    tasks = [{"task": "rev"}, {"task": "names"}]
    nsp = 2 if tier == "quick" else 8
    for i in range(nsp):
        tasks.append({"task": "spell", "slice": i, "nslices": nsp, "depth": 1 if tier == "quick" else 2})
    if tier == "quick":
        for i in range(3):
            tasks.append({"task": "grid", "slice": i, "nslices": 3, "sample": 0.03})
        for i in range(2):
            tasks.append({"task": "cpvgrid", "slice": i, "nslices": 2, "sample": 0.02})
        for i in range(5):
            tasks.append({"task": "hyp", "examples": 700})
    else:
        for i in range(32):
            tasks.append({"task": "grid", "slice": i, "nslices": 32, "sample": 1.0})
        for i in range(16):
            tasks.append({"task": "cpvgrid", "slice": i, "nslices": 16, "sample": 1.0})
        for i in range(16):
            tasks.append({"task": "hyp", "examples": 8000})
    return tasks


def cpv_universe():
    out = []
    for ver, rev in V.universe(1):
        out.append({"cat": "c", "pkg": "p", "ver": ver, "rev": rev})
    return out


def run_task(ctx, task, **kw):
    objs = Objs()
    if task == "grid":
        rnd = random.Random(ctx.seed * 7919 + kw["slice"])  # only selects which slice of the finite grid a quick run visits
        sample = kw["sample"]
        full = sample >= 1.0
        for n, idx in enumerate(G.grid_indices()):
            if n % kw["nslices"] != kw["slice"]:
                continue
            if ctx.out_of_time():
                full = False
                break
            fa = G.grid_fields(idx)
            for jdx in G.grid_neighbours(idx):
                if not full and rnd.random() >= sample:
                    continue
                fb = G.grid_fields(jdx)
                if fa == fb:  # normalisation collapsed the difference (e.g. nv without a version)
                    continue
                check_pair(ctx, objs, "atom", fa, fb)
        ctx.note("exhaustive_atom_grid", bool(full))
        ctx.note("atom_grid_points", G.grid_size())
    elif task == "cpvgrid":
        U = cpv_universe()
        rnd = random.Random(ctx.seed * 104729 + kw["slice"])
        sample = kw["sample"]
        full = sample >= 1.0
        for i, fa in enumerate(U):
            if i % kw["nslices"] != kw["slice"]:
                continue
            if ctx.out_of_time():
                full = False
                break
            for fb in U:
                if not full and rnd.random() >= sample:
                    continue
                check_pair(ctx, objs, "cpv", fa, fb)
        # unversioned cpvs and other categories/packages: tiny, always complete
        if kw["slice"] == 0:
            keys = [{"cat": c, "pkg": p, "ver": None, "rev": None} for c in G.CATS for p in G.PKGS]
            for fa in keys:
                for fb in keys:
                    sa, sb = G.render_cpv(fa), G.render_cpv(fb)
                    case = {"kind": "ucpv", "a": sa, "b": sb}
                    ctx.case(case, nontrivial=sa != sb, classes=["ucpv"], key=f"ucpv|{sa}|{sb}")
                    built = core.guarded(ctx, case, lambda: (objs.build("ucpv", sa), objs.build("ucpv", sb)))
                    if not core.crashed(built):
                        pair_laws(ctx, "ucpv", G.diff_label(G.cpv_diff(fa, fb)), case, *built)
        ctx.note("exhaustive_cpv_pairs", bool(full))
        ctx.note("cpv_universe_size", len(U))
    elif task == "spell":
        # every numeric position respelled (leading zeros; omitted vs 0 vs 00): first / later components, each
        # suffix number of a stack, revision -- all ordered pairs inside each family of PMS-equal spellings, as
        # CPVs (must be equal => equal hashes) and as "=" atoms (unequal => strictly ordered)
        full = True
        for n, base in enumerate(G.SPELL_BASES):
            if n % kw["nslices"] != kw["slice"]:
                continue
            if ctx.out_of_time():
                full = False
                break
            fam = G.spelling_family(base, kw["depth"])
            for va in fam:
                for vb in fam:
                    fa = {"cat": "c", "pkg": "p", "ver": va[0], "rev": va[1]}
                    fb = {"cat": "c", "pkg": "p", "ver": vb[0], "rev": vb[1]}
                    check_pair(ctx, objs, "cpv", fa, fb)
                    if va != vb:
                        check_pair(ctx, objs, "atom", _atom_of(fa, "="), _atom_of(fb, "="))
        ctx.note("exhaustive_spelling_families", full)
    elif task == "names":
        # categories / packages that are prefixes of one another followed by each separator character: all ordered
        # pairs of keys, as unversioned atoms, versioned atoms, versioned and unversioned CPVs; then sort/set laws
        keys = [{"cat": c, "pkg": p, "ver": None, "rev": None} for c in G.NAME_CATS for p in G.NAME_PKGS]
        for fa in keys:
            for fb in keys:
                check_pair(ctx, objs, "atom", _atom_of(fa, ""), _atom_of(fb, ""))
                check_pair(ctx, objs, "atom", _atom_of(dict(fa, ver="1"), ">="), _atom_of(dict(fb, ver="1"), ">="))
                check_pair(ctx, objs, "cpv", dict(fa, ver="1"), dict(fb, ver="1"))
                check_pair(ctx, objs, "ucpv", fa, fb)
        rnd = random.Random(20)  # fixed: only picks which 6-element windows of the finite key list are sorted
        order = list(keys)
        rnd.shuffle(order)
        for i in range(0, len(order) - 5, 2):
            win = order[i:i + 6]
            check_list(ctx, objs, "atom", [_atom_of(f, "") for f in win], i)
            check_list(ctx, objs, "cpv", [dict(f, ver="1") for f in win], i)
        ctx.note("exhaustive_name_pairs", True)
    elif task == "rev":
        revs = [None, "0", "00", "1", "01", "001", "2", "10", "010", "20"]
        for a in revs:
            for b in revs:
                check_pair(ctx, objs, "rev", a, b)
        ctx.note("exhaustive_revisions", True)
    elif task == "hyp":
        n = kw["examples"]
        core.hyp_run(ctx, G.atom_pair(), lambda p: check_pair(ctx, objs, "atom", p[0], p[1]), int(n * 0.5), chunk=1000)
        core.hyp_run(ctx, G.cpv_pair(), lambda p: check_pair(ctx, objs, "cpv", p[0], p[1]), int(n * 0.25), chunk=1000, seed_salt=1)
        core.hyp_run(ctx, st.tuples(G.atom_list(), st.integers(0, 2**16)),
                     lambda t: check_list(ctx, objs, "atom", t[0], t[1]), int(n * 0.15), chunk=500, seed_salt=2)
        core.hyp_run(ctx, st.tuples(G.cpv_list(), st.integers(0, 2**16)),
                     lambda t: check_list(ctx, objs, "cpv", t[0], t[1]), int(n * 0.10), chunk=500, seed_salt=3)
    else:
        raise core.HarnessError(f"unknown task {task}")


# ---- replay ----------------------------------------------------------------------------------------------------------

def _fields_from_spec(kind, spec):
    """harness-side parse of a rendered spec back into a field dict (only for labels in replay)"""
    import re

    if kind == "atom":
        text, nv = spec
        m = re.match(r"^(!{0,2})(<=|>=|<|>|=|~|)([^/]+)/(.*?)(?::([^:\[]*))?(?:::([^\[]+))?(?:\[(.*)\])?$", text)
        blk, op, cat, rest, slotspec, repo, use = m.groups()
        ver = rev = None
        if op:
            if op == "=" and rest.endswith("*"):
                op, rest = "=*", rest[:-1]
            mm = re.match(r"^(.*?)-(\d+(?:\.\d+)*[a-z]?(?:_[a-z]+\d*)*)(?:-r(\d+))?$", rest)
            rest, ver, rev = mm.groups()
        slot = sub = sop = None
        if slotspec:
            if slotspec in ("*", "="):
                sop = slotspec
            else:
                if slotspec.endswith("="):
                    sop, slotspec = "=", slotspec[:-1]
                slot, _, sub = slotspec.partition("/")
                sub = sub or None
        return {"blk": blk, "op": op, "cat": cat, "pkg": rest, "ver": ver, "rev": rev, "slot": slot, "sub": sub, "sop": sop,
                "repo": repo, "use": use.split(",") if use else None, "nv": bool(nv)}
    if kind in ("cpv", "ucpv"):
        cat, rest = spec.split("/", 1)
        mm = re.match(r"^(.*?)-(\d+(?:\.\d+)*[a-z]?(?:_[a-z]+\d*)*)(?:-r(\d+))?$", rest)
        if kind == "ucpv" or not mm:
            return {"cat": cat, "pkg": rest, "ver": None, "rev": None}
        return {"cat": cat, "pkg": mm.group(1), "ver": mm.group(2), "rev": mm.group(3)}
    return spec


def replay(ctx, case):
    objs = Objs()
    kind = case["kind"]
    if "list" in case:
        fs = [_fields_from_spec(kind, s) for s in case["list"]]
        for f, s in zip(fs, case["list"]):
            if spec_of(kind, f) != s:
                raise core.HarnessError(f"replay: cannot re-parse {s!r}")
        check_list(ctx, objs, kind, fs, case.get("perm_seed", 0))
        return
    fa, fb = _fields_from_spec(kind, case["a"]), _fields_from_spec(kind, case["b"])
    if kind == "ucpv":
        ctx.case(case, nontrivial=case["a"] != case["b"], classes=["ucpv"])
        A, B = objs.build("ucpv", case["a"]), objs.build("ucpv", case["b"])
        pair_laws(ctx, "ucpv", G.diff_label(G.cpv_diff(fa, fb)), case, A, B)
        return
    if kind != "rev" and (spec_of(kind, fa) != case["a"] or spec_of(kind, fb) != case["b"]):
        raise core.HarnessError(f"replay: cannot re-parse {case!r}")
    check_pair(ctx, objs, kind, fa, fb)
