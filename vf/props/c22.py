"""C22 Contents sets behave like path-keyed maps.

A history (JSON list of ops) is interpreted against a real `contentsSet` (or `OrderedContentsSet`) and a model
`dict[normalised path -> entry object]` side by side; after every op the real key set, the values (object identity)
and the op's return value are compared with what the same operation does on the model map.  Path normalisation in
the model is an own small function (split on "/", drop "" and ".", pop on ".."), not os.path.normpath.

Argument kinds generated (only where the method's code accepts them):
  lookups/removal (`in`, `[]`, `del`, remove, discard): an entry, a path string (normalised or not)
  difference, difference_update, intersection_update, issubset, issuperset, isdisjoint:
      another contentsSet / OrderedContentsSet, an iterator / list / set of entries, an iterator / list / set of
      path strings (these methods convert non-entries with `_convert_loc`, i.e. document path strings as accepted)
  intersection, union, symmetric_difference(_update), update: a set, an iterator / list / set of entries (they
      construct entries from the argument, strings are rejected by the code and are not generated)
  insert_offset(new), change_offset(old, new): `old` is an ancestor common to every entry of the set (what every
      caller passes: engine offset, a directory whose children were selected), spelled normalised with optional
      trailing slashes; `new` any spelling of an absolute path
  add_missing_directories(mode, uid, gid, mtime)

Dropped w.r.t. DESIGN.md: immutable sets (error behaviour of frozen sets is not in the statement); relative entry
paths; paths starting with exactly two slashes (POSIX keeps "//" distinct, normpath preserves it).
Results are first-class: every set returned by difference/intersection/union/symmetric_difference (and by a
relocation), and every contentsSet passed as an argument, joins a pool of named sets with its own independent model
dict; `select` ops (and the `goto` flag) make such a set the target of the following ops, and after every op *all*
pool members are compared with their models, so a result that shares state with an operand (e.g. a `return self`
shortcut for an empty argument) shows up as a model mismatch of the set that was not the target (`aliasing:*`).
After a detected divergence the real set is rebuilt from the model so later ops are still checked (collect mode).
"""
import os

from hypothesis import strategies as st

from .. import core

ID = "C22"
TITLE = "Contents sets behave like path-keyed maps"
LEVEL = "exploration"
TECHNIQUE = "stateful model-based testing: op histories vs. dict keyed by independently normalised path"
DESIGN_REF = "DESIGN.md §3 C22"
LEVEL_TEXT = (
    "Generated histories of set operations (every accepted argument kind, unnormalised spellings) on contentsSet / "
    "OrderedContentsSet compared step by step with a dict model keyed by normalised path: key sets, value identity, "
    "predicate results, operands left untouched, relocation and add_missing_directories results."
)
LEVEL_NOTE = "Trusted: the model interpreter in this module (own path normaliser). Search, not proof."
RULE = (
    "hypothesis lists of JSON ops over a small path universe (components a,b,'x y',e-acute; depth 0-3) with spellings "
    "decorated by //, /./, /x/../, trailing slashes; one evaluation = one op applied to (real set, model); non-trivial = "
    "the op's argument is a path string or contains at least one unnormalised spelling (entry or string) or is a "
    "relocation/add_missing_directories on a non-empty set, or it mutates a set that was returned by a non-updating op "
    "(results of non-updating ops and set arguments join a pool of named sets, each with its own model; select/goto "
    "make them targets of later ops); distinct = distinct (target, state keys, op)"
)
ASSUMPTIONS = [
    "entries are built the way livefs/tar/CONTENTS readers build them: absolute location, strict=False with mode/uid/gid/mtime",
    "change_offset's old offset is a common ancestor of every entry (precondition of all callers)",
    "path strings are accepted wherever the method runs non-entries through _convert_loc or normpath",
]
BUDGET = {"quick": 50, "thorough": 900}

COMPS = ["a", "b", "x y", "é"]
TYPES = ["file", "dir", "sym", "fifo", "dev"]

LOOKUP_OPS = ("contains", "get", "del", "remove", "discard")
STR_BINOPS = ("difference", "difference_update", "intersection_update", "issubset", "issuperset", "isdisjoint")
ENTRY_BINOPS = ("intersection", "union", "symmetric_difference", "symmetric_difference_update", "update")
UPDATE_OPS = ("difference_update", "intersection_update", "symmetric_difference_update", "update")
PRED_OPS = ("issubset", "issuperset", "isdisjoint")
E_KINDS = ("cset", "ocset", "iter_e", "list_e", "set_e")
S_KINDS = ("iter_s", "list_s", "set_s")
NONUPDATE_BINOPS = ("difference", "intersection", "union", "symmetric_difference")
MUTATING_OPS = ("add", "del", "remove", "discard", "clear", "add_missing_directories") + UPDATE_OPS
POOL_MAX = 8


# ---------------------------------------------------------------- reference normalisation

def norm(p):
    out = []
    for c in p.split("/"):
        if c == "" or c == ".":
            continue
        if c == "..":
            if out:
                out.pop()
            continue
        out.append(c)
    return "/" + "/".join(out)


def ancestors(k):
    """proper ancestors of a normalised key other than '/'"""
    parts = k.split("/")[1:]
    return ["/" + "/".join(parts[:i]) for i in range(1, len(parts))]


def common_ancestor(keys, up=0):
    split = [k.split("/")[1:] if k != "/" else [] for k in keys]
    pre = []
    for tup in zip(*split):
        if all(x == tup[0] for x in tup):
            pre.append(tup[0])
        else:
            break
    if up:
        pre = pre[: max(0, len(pre) - up)]
    return "/" + "/".join(pre)


def relocate_key(k, old, new):
    oldn, newn = norm(old), norm(new)
    rel = k if oldn == "/" else k[len(oldn):]
    return norm(newn + "/" + rel)


# ---------------------------------------------------------------- strategies

def _build_pool():
    """finite pool of path spellings: every key of the universe (depth 0-3 over COMPS) spelled normalised and in
    several unnormalised ways; a fixed-seed RNG only picks which decorations of the finite decoration space are in
    the pool (same pool for every run/seed). Shallow keys are repeated so that arguments and state overlap often."""
    import itertools
    import random

    rnd = random.Random(22)
    pool = []
    for depth, weight, variants in ((0, 3, 0), (1, 6, 4), (2, 2, 3), (3, 1, 1)):
        for comps in itertools.product(COMPS, repeat=depth):
            plain = "/" + "/".join(comps)
            pool.extend([plain] * weight * max(1, variants))
            if depth == 0:
                pool.extend(["///", "/.", "/a/..", "/./", "/../"])
                continue
            for _ in range(variants * weight):
                s = ""
                for i, c in enumerate(comps):
                    sep = rnd.choice(["/", "/", "//", "/./", "/zz/../", "///"])
                    if i == 0 and sep == "//":
                        sep = "///"
                    s += sep + c
                s += rnd.choice(["", "", "/", "/.", "//", "/q/.."])
                pool.append(s)
    return pool


POOL = _build_pool()


def spelling():
    return st.sampled_from(POOL)


def deco(k, d):
    """d-th respelling of the normalised key k (d=0: unchanged)"""
    d %= 6
    if k == "/":
        return ["/", "///", "/.", "/./", "/zz/..", "/"][d]
    return [k, k + "/", "/." + k, "/" + k.replace("/", "//"), k + "/zz/..", "/zz/.." + k][d]


def entry_spec():
    return st.fixed_dictionaries({"t": st.sampled_from(TYPES), "p": spelling()})


def lookup_arg():
    # "ref": the i-th (mod size) key of the current state respelled with deco(); resolved by the interpreter
    ref = st.fixed_dictionaries(
        {"k": st.sampled_from(["entry", "str", "str"]), "ref": st.integers(0, 7), "deco": st.integers(0, 5),
         "t": st.sampled_from(TYPES)}
    )
    return st.one_of(
        st.fixed_dictionaries({"k": st.just("entry"), "e": entry_spec()}),
        st.fixed_dictionaries({"k": st.just("str"), "p": spelling()}),
        ref,
    )


def coll_arg(strings_ok):
    # "state": additionally put all / every second key of the current state (respelled from deco on) into the argument
    state = st.sampled_from([None, None, "all", "half"])
    # "goto": after a non-updating op continue the history on the returned set (results are first-class sets of the pool)
    ents = st.fixed_dictionaries(
        {"kind": st.sampled_from(E_KINDS), "items": st.lists(entry_spec(), max_size=4), "state": state, "deco": st.integers(0, 5),
         "goto": st.booleans()}
    )
    if not strings_ok:
        return ents
    strs = st.fixed_dictionaries(
        {"kind": st.sampled_from(S_KINDS), "items": st.lists(spelling(), max_size=4), "state": state, "deco": st.integers(0, 5),
         "goto": st.booleans()}
    )
    return st.one_of(ents, ents, strs)


def op_strategy():
    alts = [
        st.tuples(st.just("add"), entry_spec()),
        st.tuples(st.sampled_from(LOOKUP_OPS), lookup_arg()),
        st.tuples(st.sampled_from(LOOKUP_OPS), lookup_arg()),
        st.tuples(st.sampled_from(STR_BINOPS), coll_arg(True)),
        st.tuples(st.sampled_from(STR_BINOPS), coll_arg(True)),
        st.tuples(st.sampled_from(STR_BINOPS), coll_arg(True)),
        st.tuples(st.sampled_from(ENTRY_BINOPS), coll_arg(False)),
        st.tuples(st.sampled_from(ENTRY_BINOPS), coll_arg(False)),
        st.tuples(st.just("insert_offset"), st.fixed_dictionaries({"new": spelling(), "assign": st.booleans()})),
        st.tuples(
            st.just("change_offset"),
            st.fixed_dictionaries(
                {"up": st.integers(0, 2), "slashes": st.sampled_from([0, 0, 1, 2]), "new": spelling(), "assign": st.booleans()}
            ),
        ),
        st.tuples(
            st.just("add_missing_directories"),
            st.fixed_dictionaries(
                {"mode": st.sampled_from([0o775, 0o755, 0o700]), "uid": st.integers(0, 3), "gid": st.integers(0, 3),
                 "mtime": st.one_of(st.none(), st.integers(1, 10**9))}
            ),
        ),
        st.tuples(st.just("len_iter"), st.none()),
        # switch the target of the following ops to another set of the pool (0 = most recently created)
        st.tuples(st.just("select"), st.sampled_from([0, 0, 0, 1, 1, 2, 3, 5])),
    ]
    alts = alts + alts + [st.tuples(st.just("clear"), st.none())]
    return st.one_of(*alts).map(list)


def history():
    return st.fixed_dictionaries(
        {
            "ordered": st.booleans(),
            "init": st.lists(entry_spec(), min_size=1, max_size=7),
            "ops": st.lists(op_strategy(), min_size=1, max_size=12),
        }
    )


# ---------------------------------------------------------------- interpreter

class Machine:
    def __init__(self, ctx, case):
        from pkgcore.fs import contents, fs

        self.ctx = ctx
        self.case = case
        self.contents = contents
        self.fs = fs
        self.n = 0
        # pool of named sets: every set that exists in the history (the initial one, results of non-updating ops,
        # contentsSet arguments) with its own independent model dict; `cur` is the target of the next op
        self.pool = [{"real": None, "model": {}, "ordered": bool(case.get("ordered")), "born": "init"}]
        self.cur = 0
        ents = [self.mk(s) for s in case["init"]]
        for s, e in zip(case["init"], ents):
            self.model[norm(s["p"])] = e
        self.real = core.guarded(ctx, case, lambda: self.mkset(self.ordered, ents))
        if core.crashed(self.real):
            self.real = None
            return
        self.sync("init", "entries")

    real = property(lambda self: self.pool[self.cur]["real"], lambda self, v: self.pool[self.cur].__setitem__("real", v))
    model = property(lambda self: self.pool[self.cur]["model"], lambda self, v: self.pool[self.cur].__setitem__("model", v))
    ordered = property(lambda self: self.pool[self.cur]["ordered"], lambda self, v: self.pool[self.cur].__setitem__("ordered", v))

    def pool_add(self, real, born, goto=False):
        """register a set created by the code under test (or handed to it) as a first-class set of the history"""
        if len(self.pool) >= POOL_MAX:
            return
        self.pool.append({"real": real, "model": dict(real._dict), "born": born,
                          "ordered": isinstance(real, self.contents.OrderedContentsSet)})
        if goto:
            self.cur = len(self.pool) - 1

    def check_others(self, opname):
        """every set of the pool that was NOT the target of the op must still equal its own model: a result that
        shares state with an operand (or two results with each other) shows up here"""
        tgt = self.pool[self.cur]
        for i, ent in enumerate(self.pool):
            if i == self.cur or ent["real"] is None:
                continue
            d, m = ent["real"]._dict, ent["model"]
            if set(d) == set(m) and all(d[k] is m[k] for k in m):
                continue
            born = tgt["born"] if tgt["born"] not in ("init", "argument") else ent["born"]
            self.ctx.violation(
                f"aliasing:{born}:shares-state", self.case,
                f"{opname} on pool set #{self.cur} (born from {tgt['born']}) changed pool set #{i} (born from {ent['born']}): "
                + (f"keys {sorted(d)} != its model {sorted(m)}" if set(d) != set(m) else "same keys, but an entry object was replaced"),
            )
            ent["real"] = self.mkset(ent["ordered"], list(m.values()))
            # break the sharing on the target's side too
            tgt["real"] = self.mkset(tgt["ordered"], list(tgt["model"].values()))

    # -- construction helpers
    def mk(self, spec):
        fs = self.fs
        self.n += 1
        kw = dict(mode=0o644, uid=1, gid=1, mtime=self.n, strict=False)
        t, p = spec["t"], spec["p"]
        if t == "file":
            return fs.fsFile(p, **kw)
        if t == "dir":
            return fs.fsDir(p, **kw)
        if t == "sym":
            return fs.fsSymlink(p, "tgt/../x", **kw)
        if t == "fifo":
            return fs.fsFifo(p, **kw)
        return fs.fsDev(p, major=3, minor=7, **kw)

    def mkset(self, ordered, ents):
        if ordered:
            return self.contents.OrderedContentsSet(ents, mutable=True)
        return self.contents.contentsSet(ents, mutable=True)

    def viol(self, root, op, what, msg):
        self.ctx.violation(f"{root}:{op}:{what}", self.case, msg)

    def sync(self, op, root):
        """compare real set with model (keys, identity, len, iteration); on divergence report and rebuild."""
        real, model = self.real, self.model
        d = real._dict
        ok = True
        if set(d) != set(model):
            self.viol(root, op, "keys", f"keys {sorted(d)} != model {sorted(model)}")
            ok = False
        else:
            for k, v in model.items():
                if d[k] is not v:
                    self.viol(root, op, "value", f"value at {k!r} is {d[k]!r} (mtime {d[k].mtime}), model has {v!r} (mtime {v.mtime})")
                    ok = False
                    break
        if ok:
            it = list(real)
            if len(real) != len(model) or len(it) != len(model) or {id(x) for x in it} != {id(x) for x in model.values()}:
                self.viol(root, op, "iter", f"len/iter disagree with model: len={len(real)} iter={it!r}")
                ok = False
        if not ok:
            self.real = self.mkset(self.ordered, list(self.model.values()))
        return ok

    # -- argument construction: returns (python argument, model map of the argument, root-cause class, nontrivial)
    def build_coll(self, arg):
        kind, items = arg["kind"], list(arg["items"])
        if arg.get("state"):
            for i, k in enumerate(sorted(self.model)):
                if arg["state"] == "all" or i % 2 == 0:
                    p = deco(k, arg.get("deco", 0) + i)
                    items.append({"t": TYPES[i % len(TYPES)], "p": p} if kind in E_KINDS else p)
        if kind in E_KINDS:
            ents = [self.mk(s) for s in items]
            m = {}
            allv = {}
            for s, e in zip(items, ents):
                k = norm(s["p"])
                m[k] = e
                allv.setdefault(k, []).append(e)
            unn = any(norm(s["p"]) != s["p"] for s in items)
            if kind == "cset":
                a, root = self.mkset(False, ents), "set-arg"
            elif kind == "ocset":
                a, root = self.mkset(True, ents), "set-arg"
            elif kind == "iter_e":
                a, root = iter(ents), "entry-iterator"
            elif kind == "list_e":
                a, root = list(ents), "entry-container"
            else:
                # python set of entries; entries hash/compare by (class, location): keep insertion semantics of the
                # model (last one wins) by de-duplicating on key first so the set content is deterministic
                a, root = set(m.values()), "entry-container"
                allv = {k: [v] for k, v in m.items()}
            return a, m, allv, root, unn
        keys = [norm(s) for s in items]
        unn = any(norm(s) != s for s in items)
        m = {k: None for k in keys}
        root = "unnormalised-str" if unn else "str-arg"
        if kind == "iter_s":
            a = iter(list(items))
        elif kind == "list_s":
            a = list(items)
        else:
            a = set(items)
        return a, m, {}, root, True

    def check_result_set(self, root, op, res, want_keys, sources):
        """res: contentsSet returned by a non-update op; sources: key -> list of acceptable objects"""
        if not isinstance(res, self.contents.contentsSet):
            self.viol(root, op, "type", f"returned {type(res).__name__}")
            return False
        got = res._dict
        if set(got) != set(want_keys):
            self.viol(root, op, "result-keys", f"result keys {sorted(got)} != expected {sorted(want_keys)}")
            return False
        for k, v in got.items():
            if not any(v is s for s in sources.get(k, ())):
                self.viol(root, op, "result-value", f"result value at {k!r} is not taken from an operand")
                return False
        return True

    def step(self, op):
        if op[0] == "select":
            self.cur = len(self.pool) - 1 - (op[1] % len(self.pool))
            return
        self._step(op)
        self.check_others(op[0])

    def _step(self, op):
        name, arg = op[0], op[1]
        ctx, case = self.ctx, self.case
        model = self.model
        real = self.real
        g = lambda fn, exp=(): core.guarded(ctx, case, fn, expected=exp)  # noqa: E731
        state_keys = sorted(model)

        if name == "add":
            e = self.mk(arg)
            k = norm(arg["p"])
            unn = k != arg["p"]
            self.record(state_keys, op, unn, ["add", "entry-unnorm" if unn else "entry"])
            if core.crashed(g(lambda: real.add(e))):
                return
            if e.location != k:
                self.viol("entry", name, "location", f"entry location {e.location!r} != normalised {k!r}")
            model[k] = e
            self.sync(name, "entry")
            return

        if name in LOOKUP_OPS:
            if "ref" in arg:
                p = deco(state_keys[arg["ref"] % len(state_keys)], arg["deco"]) if state_keys else deco("/a", arg["deco"])
                arg = {"k": "entry", "e": {"t": arg["t"], "p": p}} if arg["k"] == "entry" else {"k": "str", "p": p}
            if arg["k"] == "entry":
                a = self.mk(arg["e"])
                k = norm(arg["e"]["p"])
                unn = k != arg["e"]["p"]
                root = "entry"
                nontriv = unn
            else:
                a = arg["p"]
                k = norm(a)
                unn = k != a
                root = "unnormalised-str" if unn else "str-arg"
                nontriv = True
            present = k in model
            self.record(state_keys, op, nontriv, [name, root, "hit" if present else "miss"])
            if name == "contains":
                r = g(lambda: a in real)
                if core.crashed(r):
                    return
                if bool(r) != present:
                    self.viol(root, name, "result", f"{a!r} in set -> {r}, model says {present}")
            elif name == "get":
                try:
                    r = g(lambda: real[a], (KeyError,))
                except KeyError:
                    if present:
                        self.viol(root, name, "keyerror", f"set[{a!r}] raised KeyError but {k!r} is present")
                    r = None
                else:
                    if core.crashed(r):
                        return
                    if not present:
                        self.viol(root, name, "result", f"set[{a!r}] returned {r!r} but {k!r} is absent")
                    elif r is not model[k]:
                        self.viol(root, name, "value", f"set[{a!r}] returned a different object than stored")
            else:
                try:
                    if name == "del":
                        def f():
                            del real[a]
                    elif name == "remove":
                        f = lambda: real.remove(a)  # noqa: E731
                    else:
                        f = lambda: real.discard(a)  # noqa: E731
                    r = g(f, (KeyError,))
                    if core.crashed(r):
                        return
                    if not present and name != "discard":
                        self.viol(root, name, "no-keyerror", f"{name}({a!r}) did not raise though {k!r} is absent")
                except KeyError:
                    if present or name == "discard":
                        self.viol(root, name, "keyerror", f"{name}({a!r}) raised KeyError; present={present}")
                model.pop(k, None)
            self.sync(name, root)
            return

        if name in STR_BINOPS or name in ENTRY_BINOPS:
            a, om, allv, root, unn = self.build_coll(arg)
            kind = arg["kind"]
            overlap = bool(set(om) & set(model))
            cls = [name, f"{name}:{kind}", root, "arg-overlaps" if overlap else "arg-disjoint"]
            if not om:
                cls.append("empty_argument")
                if name in NONUPDATE_BINOPS:
                    cls.append("empty_argument:" + name)
            elif set(om) == set(model):
                cls.append("equal_argument")
            if not model:
                cls.append("empty_self")
            self.record(state_keys, op, unn or kind in S_KINDS, cls)
            sk, ok_ = set(model), set(om)
            other_is_set = kind in ("cset", "ocset")
            other_before = dict(a._dict) if other_is_set else None
            r = g(lambda: getattr(real, name)(a))
            if core.crashed(r):
                self.sync(name, root)
                return
            if name in PRED_OPS:
                want = {"issubset": sk <= ok_, "issuperset": sk >= ok_, "isdisjoint": not (sk & ok_)}[name]
                if bool(r) != want:
                    self.viol(root, name, "result", f"{name} -> {r}, on normalised keys it is {want}; self={sorted(sk)} other={sorted(ok_)}")
            elif name in UPDATE_OPS:
                if name == "difference_update":
                    for k in ok_:
                        model.pop(k, None)
                elif name == "intersection_update":
                    for k in sk - ok_:
                        del model[k]
                elif name == "symmetric_difference_update":
                    for k in ok_:
                        if k in sk:
                            del model[k]
                        else:
                            model[k] = om[k]
                else:  # update
                    for k, v in om.items():
                        model[k] = v
                if name in ("symmetric_difference_update", "update"):
                    # several entries for one key inside the argument: the statement does not say which one a map
                    # would keep, so any of the argument's entries for that key is acceptable
                    for k in ok_:
                        if k in model and len(allv.get(k, ())) > 1:
                            cur = real._dict.get(k)
                            if any(cur is x for x in allv[k]):
                                model[k] = cur
            else:
                src = {}
                for k, v in model.items():
                    src.setdefault(k, []).append(v)
                for k, vs in allv.items():
                    src.setdefault(k, []).extend(vs)
                if name == "difference":
                    want = sk - ok_
                    src = {k: [model[k]] for k in want}
                elif name == "intersection":
                    want = sk & ok_
                elif name == "union":
                    want = sk | ok_
                else:
                    want = sk ^ ok_
                res_ok = self.check_result_set(root, name, r, want, src)
                tgt = self.cur
                if other_is_set:
                    self.pool_add(a, "argument")
                if res_ok and r.mutable:
                    self.pool_add(r, name, goto=bool(arg.get("goto")))
                # compare the operand (not the freshly selected result) with its model below
                new_cur, self.cur = self.cur, tgt
                if other_is_set and (set(a._dict) != set(other_before) or any(a._dict[k] is not other_before[k] for k in other_before)):
                    self.viol(root, name, "other-mutated", "the argument set was modified")
                self.sync(name, root)
                self.cur = new_cur
                return
            if other_is_set and (set(a._dict) != set(other_before) or any(a._dict[k] is not other_before[k] for k in other_before)):
                self.viol(root, name, "other-mutated", "the argument set was modified")
            self.sync(name, root)
            return

        if name == "insert_offset":
            new = arg["new"]
            self.record(state_keys, op, bool(model), [name, "new-unnorm" if norm(new) != new else "new-norm"])
            r = g(lambda: real.insert_offset(new))
            if core.crashed(r):
                return
            self.check_relocated(name, r, "/", new, arg.get("assign"))
            return

        if name == "change_offset":
            if not model:
                old = "/"
            else:
                old = common_ancestor(list(model), arg["up"])
            old_sp = old.rstrip("/") + "/" * arg["slashes"] if old != "/" else "/"
            if not old_sp:
                old_sp = "/"
            new = arg["new"]
            self.record(state_keys, op, bool(model),
                        [name, "old-root" if old == "/" else "old-dir", "old-is-entry" if old in model else "old-not-entry"])
            r = g(lambda: real.change_offset(old_sp, new))
            if core.crashed(r):
                return
            self.check_relocated(name, r, old_sp, new, arg.get("assign"))
            return

        if name == "add_missing_directories":
            want_new = set()
            for k in model:
                for anc in ancestors(k):
                    if anc not in model:
                        want_new.add(anc)
            self.record(state_keys, op, bool(model), [name, "adds" if want_new else "adds-nothing"])
            kw = dict(mode=arg["mode"], uid=arg["uid"], gid=arg["gid"])
            if arg["mtime"] is not None:
                kw["mtime"] = arg["mtime"]
            if core.crashed(g(lambda: real.add_missing_directories(**kw))):
                return
            d = real._dict
            extra = set(d) - set(model)
            if extra != want_new or set(model) - set(d):
                self.viol("amd", name, "keys", f"added {sorted(extra)}, expected exactly {sorted(want_new)}; lost {sorted(set(model) - set(d))}")
                self.real = self.mkset(self.ordered, list(model.values()))
                return
            for k in extra:
                e = d[k]
                if not e.is_dir or e.location != k:
                    self.viol("amd", name, "type", f"added entry {e!r} at {k!r} is not a directory there")
                elif (e.mode, e.uid, e.gid) != (arg["mode"], arg["uid"], arg["gid"]) or (
                    arg["mtime"] is not None and e.mtime != arg["mtime"]
                ):
                    self.viol("amd", name, "attrs", f"added dir {k!r} has mode/uid/gid/mtime {e.mode:o}/{e.uid}/{e.gid}/{e.mtime}")
                model[k] = e
            self.sync(name, "amd")
            return

        if name == "clear":
            self.record(state_keys, op, False, [name])
            if core.crashed(g(lambda: real.clear())):
                return
            model.clear()
            self.sync(name, "entry")
            return

        if name == "len_iter":
            self.record(state_keys, op, False, [name])
            self.sync(name, "entry")
            return
        raise core.HarnessError(f"unknown op {name}")

    def check_relocated(self, name, res, old, new, assign):
        model = self.model
        if not isinstance(res, self.contents.contentsSet):
            self.viol("reloc", name, "type", f"returned {type(res).__name__}")
            return
        want = {relocate_key(k, old, new): v for k, v in model.items()}
        got = res._dict
        if len(want) != len(model):
            raise core.HarnessError("relocation not injective in the reference")
        if set(got) != set(want):
            self.viol("reloc", name, "keys", f"old={old!r} new={new!r}: keys {sorted(got)} expected {sorted(want)}")
        else:
            for k, src in want.items():
                e = got[k]
                if e.location != k:
                    self.viol("reloc", name, "location", f"entry under key {k!r} has location {e.location!r}")
                    break
                if type(e) is not type(src):
                    self.viol("reloc", name, "type-changed", f"{src!r} became {e!r}")
                    break
                bad = [
                    at for at in src.__attrs__
                    if at not in ("location", "chksums") and not _same(getattr(src, at), getattr(e, at))
                ]
                if bad:
                    self.viol("reloc", name, "attrs", f"{src!r} -> {e!r}: attributes changed: {bad}")
                    break
            else:
                if not assign and res.mutable:
                    self.pool_add(res, name)
                if assign:
                    self.model = dict(got)
                    self.real = res if res.mutable else self.mkset(self.ordered, list(got.values()))
                    self.ordered = isinstance(self.real, self.contents.OrderedContentsSet)
        # the source set must be untouched (unless we just switched to the result)
        if self.real is not res:
            self.sync(name, "reloc")

    def record(self, state_keys, op, nontrivial, classes):
        born = self.pool[self.cur]["born"]
        classes = list(classes)
        if born not in ("init", "argument"):
            classes.append("target_is_result")
            if op[0] in MUTATING_OPS:
                classes.append("mutate_result_of_nonmutating_op")
                classes.append("mutate_result_of:" + born)
                nontrivial = True
        elif born == "argument":
            classes.append("target_is_former_argument")
        small = {"state": state_keys, "ordered": self.ordered, "target": f"#{self.cur}:{born}", "op": op}
        self.ctx.case(small, nontrivial=bool(nontrivial), classes=classes)


def _same(a, b):
    return a is b or (type(a) is type(b) and isinstance(a, (int, str, float, type(None))) and a == b)


def run_history(ctx, case):
    m = Machine(ctx, case)
    if m.real is None:
        return
    for op in case["ops"]:
        m.step(op)


# ---------------------------------------------------------------- runner glue

def plan(tier, seed):
    if tier == "quick":
        return [{"task": "hyp", "examples": 700} for _ in range(8)]
    return [{"task": "hyp", "examples": 12000} for _ in range(32)]


def run_task(ctx, task, **kw):
    if task != "hyp":
        raise core.HarnessError(f"unknown task {task}")
    core.hyp_run(ctx, history(), lambda h: run_history(ctx, h), kw["examples"], chunk=350)


def replay(ctx, case):
    run_history(ctx, case)


def _buckets(case):
    c = core.Ctx(ID, "quick", 0)
    try:
        run_history(c, case)
    finally:
        c.cleanup()
    return set(c.violations)


def shrink_case(ctx, bucket, case):
    """greedy reduction over ops, init entries and argument items keeping the same bucket"""
    import copy

    cur = copy.deepcopy(case)
    if bucket not in _buckets(cur):
        return None

    def try_(cand):
        nonlocal cur
        if bucket in _buckets(cand):
            cur = cand
            return True
        return False

    changed = True
    while changed:
        changed = False
        i = 0
        while i < len(cur["ops"]):
            if len(cur["ops"]) > 1:
                cand = copy.deepcopy(cur)
                del cand["ops"][i]
                if try_(cand):
                    changed = True
                    continue
            i += 1
        i = 0
        while i < len(cur["init"]):
            cand = copy.deepcopy(cur)
            del cand["init"][i]
            if try_(cand):
                changed = True
                continue
            i += 1
        for oi, op in enumerate(cur["ops"]):
            if isinstance(op[1], dict) and isinstance(op[1].get("items"), list):
                j = 0
                while j < len(cur["ops"][oi][1]["items"]):
                    cand = copy.deepcopy(cur)
                    del cand["ops"][oi][1]["items"][j]
                    if try_(cand):
                        changed = True
                        continue
                    j += 1
        if cur.get("ordered"):
            cand = copy.deepcopy(cur)
            cand["ordered"] = False
            if try_(cand):
                changed = True
        for oi in range(len(cur["ops"])):
            a = cur["ops"][oi][1]
            if isinstance(a, dict):
                for fld, val in (("state", None), ("deco", 0), ("ref", 0), ("goto", False)):
                    if a.get(fld) not in (None, val) and fld in a:
                        cand = copy.deepcopy(cur)
                        cand["ops"][oi][1][fld] = val
                        if try_(cand):
                            changed = True
        # spell paths normalised where the failure does not depend on the spelling
        cand = copy.deepcopy(cur)
        specs = list(cand["init"])
        for op in cand["ops"]:
            a = op[1]
            if isinstance(a, dict):
                if "t" in a and "p" in a:
                    specs.append(a)
                if isinstance(a.get("e"), dict):
                    specs.append(a["e"])
                specs.extend(x for x in a.get("items", ()) if isinstance(x, dict))
        for sp in specs:
            if norm(sp["p"]) != sp["p"]:
                old = sp["p"]
                sp["p"] = norm(old)
                if bucket in _buckets(cand):
                    cur = copy.deepcopy(cand)
                    changed = True
                else:
                    sp["p"] = old
    return cur
