"""C06 Boolean restriction trees evaluate as propositional logic; normal forms agree.

Generated: random restriction trees (JSON specs, vf/gen/restrictions.py) of depth <= 4, fan-out <= 3 over
at most 4 distinct package-level leaves: And/Or/JustOne/AtMostOne nodes x negate, `restriction.Negate`
wrappers, empty nodes (low rate), typed and untyped nodes, leaves = PackageRestriction(category|package|
fullver|slot|use|repo.repo_id, StrExact|StrGlob|StrRegex|Containment or a small *value-level* boolean tree),
CategoryDep/PackageDep/SlotDep/RepositoryDep/VersionMatch (negate on wrapper or value, as each class puts
it), simple atoms, AlwaysBool.

Oracle (independent of pkgcore): `gen.restrictions.evaluate` -- propositional evaluation of the spec with
harness-side leaf semantics (string compare / prefix / re / set containment / PMS version reference).  The
tree is evaluated against *every* package of the product universe of the attributes it reads (so for
independent leaves the whole truth table is realised; class `full_truth_table` counts that).
  1. every node built (root and all subtrees, value-level subtrees against raw attribute values):
     `node.match(x) == evaluate(spec, x)`.
  2. every boolean node / atom: `dnf_solutions(False|True)`, `iter_dnf_solutions(True)`,
     `cnf_solutions(False|True)`, `iter_cnf_solutions()` -- the clause list is evaluated as OR-of-AND /
     AND-of-OR using `element.match(x)` and must equal the reference value of that node for every x.
     `NotImplementedError` = "not derived" (counted, not a violation).
Buckets name the deepest node that disagrees (children are checked first, a parent whose descendant
already disagreed is not reported again), e.g. `dnf:or-neg`, `cnf:or-empty`, `match:one`.

Dropped from DESIGN: the 16-package universe built per leaf subset -- replaced by the product universe
over the attributes read, which realises every assignment whenever leaves are independent.
force_True/force_False are not exercised (not in the statement).
"""
import itertools
from types import SimpleNamespace

from .. import core
from ..gen import restrictions as G

ID = "C06"
TITLE = "Boolean restriction trees evaluate as propositional logic; normal forms agree"
LEVEL = "exploration"
TECHNIQUE = "random restriction-tree specs vs. independent propositional evaluator over an exhaustive package universe; DNF/CNF clause lists re-evaluated"
DESIGN_REF = "DESIGN.md §3 C06"
LEVEL_TEXT = (
    "Generated-input search: hypothesis-built restriction trees (depth<=4, <=4 distinct leaves) are evaluated "
    "on every package of the product universe of the attributes they read; match() of every subtree and every "
    "derived DNF/CNF clause list is compared with a harness-side propositional evaluation."
)
LEVEL_NOTE = (
    "Trusted: vf/gen/restrictions.evaluate (leaf semantics + connectives) and vf/ref/pms_version. Clause "
    "elements of normal forms are evaluated with pkgcore's own leaf match (checked separately in step 1). "
    "No proof of absence beyond the generated trees."
)
RULE = (
    "bounded-exhaustive catalogue of P(X(a,b),Y(c,d)[,e]) / Q(P(..),e) shapes over all node kinds x negate, plus "
    "hypothesis cross-product trees (And over >=2 multi-solution children) and hypothesis trees over <=4 distinct leaves drawn from category/package/version/slot/USE/repo leaves "
    "(+value-level subtrees, Negate wrappers, empty nodes); non-trivial = (>=2 levels and >=1 negation) or a "
    "JustOne/AtMostOne node below an And/Or; distinct = canonical JSON of the tree spec"
)
ASSUMPTIONS = [
    "reference evaluator vf/gen/restrictions.evaluate is correct for leaves and connectives",
    "an empty any-of is false (pkgcore match and logic agree), an empty exactly-one-of is true (docstring/PMS)",
    "packages are plain objects exposing category/package/version/revision/fullver/slot/use/repo.repo_id",
]
BUDGET = {"quick": 50, "thorough": 900}

CATS = ["app-a", "app-b", "dev-a"]
PKGS = ["foo", "foobar", "bar"]
VERS = ["1", "1-r1", "2"]
SLOTS = ["0", "1"]
FLAGS = ["f", "g"]
REPOS = ["r1", "r2"]
USES = [frozenset(), frozenset(["f"]), frozenset(["g"]), frozenset(["f", "g"])]
DOMAIN = {
    "category": CATS,
    "package": PKGS,
    "fullver": VERS,
    "slot": SLOTS,
    "use": USES,
    "repo.repo_id": REPOS,
}
ORDER = ["category", "package", "fullver", "slot", "use", "repo.repo_id"]
PROFILE = G.Profile(CATS, PKGS, VERS, SLOTS, FLAGS, REPOS)

FORMS = [
    ("dnf", "dnf_solutions", (False,)),
    ("dnf", "dnf_solutions", (True,)),
    ("dnf", "iter_dnf_solutions", (True,)),
    ("cnf", "cnf_solutions", (False,)),
    ("cnf", "cnf_solutions", (True,)),
    ("cnf", "iter_cnf_solutions", (False,)),
]


class Pkg:
    __slots__ = ("category", "package", "version", "revision", "fullver", "key", "cpvstr", "slot", "subslot",
                 "use", "iuse_stripped", "iuse", "repo")

    def __repr__(self):
        return f"<Pkg {self.cpvstr}:{self.slot} use={sorted(self.use)} repo={self.repo.repo_id}>"


_PKG_CACHE = {}


def make_pkg(view):
    from pkgcore.ebuild import cpv

    key = tuple((k, view[k] if k != "use" else tuple(sorted(view[k]))) for k in ORDER)
    p = _PKG_CACHE.get(key)
    if p is None:
        c = cpv.VersionedCPV(f"{view['category']}/{view['package']}-{view['fullver']}")
        p = Pkg()
        p.category, p.package, p.version, p.revision, p.fullver = c.category, c.package, c.version, c.revision, c.fullver
        p.key, p.cpvstr = c.key, c.cpvstr
        p.slot, p.subslot = view["slot"], view["slot"]
        p.use = frozenset(view["use"])
        p.iuse = p.iuse_stripped = frozenset(FLAGS)
        p.repo = SimpleNamespace(repo_id=view["repo.repo_id"], livefs=False)
        _PKG_CACHE[key] = p
    return p


def universe(spec):
    attrs = G.attrs_of(spec)
    doms = [DOMAIN[a] if a in attrs else DOMAIN[a][:1] for a in ORDER]
    return [dict(zip(ORDER, combo)) for combo in itertools.product(*doms)]


def node_tag(spec):
    k = spec["k"]
    if k in G.BOOL_KINDS:
        t = k
        if spec.get("neg"):
            t += "-neg"
        if not spec["c"]:
            t += "-empty"
        return t
    if k == "pr":
        return "pr-neg" if spec.get("neg") else "pr"
    return "leaf-" + k


def _nsol(s):
    """number of DNF solutions a correct expansion of the node has (1 for opaque nodes)"""
    k = s["k"]
    if k == "and" and not s.get("neg"):
        n = 1
        for c in s["c"]:
            n *= _nsol(c)
        return n
    if k == "or" and not s.get("neg"):
        return sum(_nsol(c) for c in s["c"]) if s["c"] else 1
    if k == "and" and s.get("neg"):
        return max(len(s["c"]), 1)
    return 1


def classify(spec):
    cl = set()
    nontrivial = False
    negs = G.count_negations(spec)
    for n, _d, parents in G.walk(spec):
        k = n["k"]
        if k in G.BOOL_KINDS:
            val = n.get("nt") == "values"
            if not n["c"]:
                cl.add("empty_node")
            if n.get("neg"):
                cl.add(f"negated_{k}" + ("_val" if val else ""))
            if k in ("one", "most"):
                cl.add("xor_node" + ("_val" if val else ""))
                if any(p["k"] in ("and", "or") for p in parents):
                    cl.add("xor_below_andor")
                    nontrivial = True
            if val:
                cl.add("value_tree")
        elif k == "not":
            cl.add("negate_wrapper")
        elif k == "atom":
            cl.add("atom_leaf")
        elif k == "always":
            cl.add("always_leaf")
        elif k == "ver":
            cl.add("version_leaf")
    for n, _d, _p in G.walk(spec):
        if n["k"] == "and" and not n.get("neg") and n.get("nt") != "values" and \
                sum(1 for c in n["c"] if _nsol(c) >= 2) >= 2:
            cl.add("and_with_multiple_multisolution_children")
            break
    d = G.pkg_depth(spec)
    cl.add(f"depth{min(d, 5)}")
    if d >= 2 and negs >= 1:
        nontrivial = True
    return sorted(cl), nontrivial


def _xs_for(spec, is_value, attr, views, pkgs):
    """evaluation points for a node: packages (package level) or raw attribute values"""
    if not is_value:
        return [(p, v) for p, v in zip(pkgs, views)]
    vals = DOMAIN[attr]
    return [(x, x) for x in vals]


def check_tree(ctx, spec, record=True):
    case = {"tree": spec}
    cl, nontrivial = classify(spec)
    views = universe(spec)

    def body():
        b = G.Builder()
        root = b.build(spec)
        pkgs = [make_pkg(v) for v in views]
        # which attribute does each value-level node work on
        vattr = {}
        for n, _d, parents in G.walk(spec):
            for p in reversed(parents):
                if p["k"] == "pr":
                    vattr[id(n)] = p["attr"]
                    break
        leaves = G.pkg_leaves(spec)
        distinct = []
        for lf in leaves:
            if lf not in distinct:
                distinct.append(lf)
        if len(distinct) <= 6:
            seen = {tuple(G.evaluate(lf, v) for lf in distinct) for v in views}
            if len(seen) == 2 ** len(distinct):
                cl.append("full_truth_table")
        bad = set()  # id(spec node) that disagreed (match or normal form)
        done = set()
        nf_derived = 0
        for nspec, obj in b.registry:
            if id(nspec) in done:
                continue
            done.add(id(nspec))
            is_value = id(nspec) in vattr
            attr = vattr.get(id(nspec))
            pts = _xs_for(nspec, is_value, attr, views, pkgs)
            if is_value:
                ref = [G.eval_value(nspec, x) for _x, x in pts]
            else:
                ref = [G.evaluate(nspec, v) for _p, v in pts]
            below_bad = any(id(d) in bad for d, _dd, _pp in G.walk(nspec) if d is not nspec)
            # 1. match
            got = [bool(obj.match(x)) for x, _v in pts]
            if got != ref:
                bad.add(id(nspec))
                if not below_bad:
                    i = next(i for i in range(len(ref)) if got[i] != ref[i])
                    ctx.violation(f"match:{node_tag(nspec)}", case,
                                  f"{nspec!r}.match({pts[i][1]!r}) = {got[i]}, propositional value {ref[i]}")
                continue
            # 2. normal forms of boolean nodes and atoms
            if nspec["k"] not in G.BOOL_KINDS and nspec["k"] != "atom":
                continue
            # pkgcore's expansions are exponential by nature; keep to sizes that are judged quickly
            dl = G.dnf_lengths(nspec)
            skip = set()
            if dl is None or len(dl) > 400:
                skip.add("dnf")
            if dl is None or G.cnf_count(nspec) > 3000:
                skip.add("cnf")
            for fam in skip:
                ctx.count(f"nf_skipped_big:{fam}")
            failed_fam = set()
            for fam, meth, args in FORMS:
                if fam in failed_fam or fam in skip:
                    continue
                try:
                    sols = getattr(obj, meth)(*args)
                    sols = [list(cl_) for cl_ in sols]
                except NotImplementedError:
                    ctx.count(f"nf_not_derived:{fam}")
                    continue
                nf_derived += 1
                if fam == "dnf":
                    val = [any(all(e.match(x) for e in clause) for clause in sols) for x, _v in pts]
                else:
                    val = [all(any(e.match(x) for e in clause) for clause in sols) for x, _v in pts]
                if val != ref:
                    bad.add(id(nspec))
                    if not below_bad:
                        i = next(i for i in range(len(ref)) if val[i] != ref[i])
                        ctx.violation(
                            f"{fam}:{node_tag(nspec)}", case,
                            f"{meth}{args} of {nspec!r} has {len(sols)} clause(s) evaluating to {val[i]} on "
                            f"{pts[i][1]!r}; propositional value {ref[i]}")
                    failed_fam.add(fam)
        if nf_derived:
            cl.append("nf_derived")
            if any(n["k"] == "or" and n.get("neg") for n, _d, _p in G.walk(spec)):
                cl.append("negated_or_dnf")
        return True

    r = core.guarded(ctx, case, body)
    if record:
        ctx.case(case, nontrivial=nontrivial, classes=cl, key=core.jdump(spec))
    return r


# ---- bounded-exhaustive catalogue of small shapes over independent leaves (cheap, runs first) -------------
_LA = {"k": "dep", "cls": "CategoryDep", "s": "app-a", "neg": False}
_LB = {"k": "dep", "cls": "PackageDep", "s": "foo", "neg": False}
_LC = {"k": "dep", "cls": "SlotDep", "s": "0", "neg": False}
_LD = {"k": "dep", "cls": "RepositoryDep", "s": "r1", "neg": False}
_LE = {"k": "ver", "op": ">=", "ver": "2", "rev": None, "neg": False}
_K8 = [(k, neg) for k in G.BOOL_KINDS for neg in (False, True)]
_K6 = [("and", False), ("or", False), ("and", True), ("or", True), ("one", False), ("most", False)]
_K4 = [("and", False), ("or", False), ("and", True), ("or", True)]


def _n(kn, *kids):
    return {"k": kn[0], "neg": kn[1], "nt": None, "c": list(kids)}


def catalogue():
    """every P(X(a,b), Y(c,d)) and P(X(a,b), Y(c,d), e) for all 8 node kinds, and Q(P(X(a,b), Y(c,d)), e);
    And/Or parents first (the normal-form code paths), a..e read five different attributes"""
    out = []
    order = sorted(_K8, key=lambda kn: (kn[0] not in ("and", "or"), kn[1]))
    for P in order:
        for X in _K8:
            for Y in _K8:
                out.append(_n(P, _n(X, _LA, _LB), _n(Y, _LC, _LD)))
    for P in order:
        for X in _K6:
            for Y in _K6:
                out.append(_n(P, _n(X, _LA, _LB), _n(Y, _LC, _LD), _LE))
                out.append(_n(P, _LE, _n(X, _LA, _LB), _n(Y, _LC, _LD)))
    for Q in order:
        for P in _K4:
            for X in _K6:
                for Y in _K6:
                    out.append(_n(Q, _n(P, _n(X, _LA, _LB), _n(Y, _LC, _LD)), _LE))
    return out


def plan(tier, seed):
    nsl = 4
    tasks = [{"task": "catalogue", "slice": i, "nslices": nsl} for i in range(nsl)]
    if tier == "quick":
        return tasks + [{"task": "trees", "examples": 1200} for _ in range(16)]
    return tasks + [{"task": "trees", "examples": 20000} for _ in range(32)]


def run_task(ctx, task, **kw):
    if task == "catalogue":
        done = True
        for i, spec in enumerate(catalogue()):
            if i % kw["nslices"] != kw["slice"]:
                continue
            if i % 64 < kw["nslices"] and ctx.out_of_time():
                done = False
                break
            check_tree(ctx, spec)
        ctx.note("exhaustive_catalogue", done)
        return
    if task != "trees":
        raise core.HarnessError(f"unknown task {task}")
    n = kw["examples"]
    # cross-product trees (And over several multi-solution children) first, then general trees and smaller
    # trees with more empties / xor nodes; interleaved in rounds of small chunks so the budget guard reacts
    gens = [(G.cross(PROFILE), 0.25),
            (G.tree(PROFILE, empty_rate=30), 0.6),
            (G.tree(PROFILE, max_depth=3, max_leaves=5, empty_rate=9, kinds=("and", "or", "one", "most")), 0.15)]
    rounds = max(1, n // 300)
    for rnd in range(rounds):
        for gi, (strat, share) in enumerate(gens):
            if ctx.out_of_time():
                return
            k = max(1, int(n * share / rounds))
            core.hyp_run(ctx, strat, lambda s: check_tree(ctx, s), k, chunk=30, seed_salt=rnd * 3 + gi)
    ctx.note("universe_max", 3 * 3 * 3 * 2 * 4 * 2)


def replay(ctx, case):
    check_tree(ctx, case["tree"])


def shrink_case(ctx, bucket, case):
    cur = case["tree"]
    improved = True
    rounds = 0
    while improved and rounds < 200:
        improved = False
        rounds += 1
        for v in G.variants(cur):
            if len(core.jdump(v)) >= len(core.jdump(cur)):
                continue
            c2 = core.Ctx(ID, ctx.tier, ctx.seed)
            try:
                check_tree(c2, v, record=False)
            except Exception:  # noqa: BLE001  (a variant may be ill-typed; just skip it)
                continue
            if bucket in c2.violations:
                cur = v
                improved = True
                break
    return {"tree": cur}
