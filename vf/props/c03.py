"""C03 Atom syntax acceptance matches the PMS grammar for each EAPI and round-trips.

Oracle 1 (acceptance differential): `pkgcore.ebuild.atom.atom(s, eapi=E)` raises MalformedAtom
exactly when `vf.ref.pms_atom.parse(s, E)` rejects, for E in 0..9 and "no EAPI" (pkgcore's default
argument).  The reference is an independent transcription of the PMS grammar (see its docstring for
the three documented readings: `~`+revision rejected, `:slot/subslot=` accepted, `::repo` only
without EAPI).  For strings accepted by both, every parsed attribute of the pkgcore object is
compared with the reference's fields (and, for constructively generated atoms, the reference's
fields with the generator's -- a disagreement there is a harness bug and exits 2).

Oracle 2 (round trip): for every accepted atom `a`: `str(a)` is valid for the reference under the
same EAPI and carries the same fields, parses back (instance caching disabled) to `a2 == a`,
`not a2 != a`, `str(a2) == str(a)`, and `a.match(p) == a2.match(p)` over a package universe built
around the atom's fields (key, version neighbours, revisions, slot/sub-slot, repository, every
assignment of the mentioned USE flags with/without IUSE).  pkgcore renders atoms almost verbatim
(only USE items are sorted), so the universe part runs when the text changed and on a hash-selected
1/8 sample otherwise.

Exceptions other than MalformedAtom on strings the reference rejects ("unclean rejects", e.g.
IndexError for "!") are NOT violations -- the statement only fixes acceptance -- they are counted in
the evidence (`counters.unclean_reject:*`, `notes.unclean_reject_samples`).  On a valid string they
are `crash:*` violations.

Bucket keys: `accept-invalid:<rule>` / `reject-valid:<features>` (rule ids of the reference),
`accept-invalid:newline`, `accept-invalid:unicode-digit`, `deviation:<dialect flag>` (pkgcore
behaviour pinned by its own tests that differs from the PMS text: upper-case version letter, slot
names starting with '+'), `fields:<attr>`, `roundtrip:<what>`, `crash:*`.

Dropped from DESIGN.md: atheris (hypothesis text over the atom alphabet + fragment splicing is the
char-level fuzzer, thorough tier only); the "sibling flip" part of the non-trivial rule is computed
against the mutation's parent, not all siblings.
"""
import itertools
import random
import unicodedata

from hypothesis import strategies as st

from .. import core
from ..gen import atoms as G
from ..ref import pms_atom as R

ID = "C03"
TITLE = "Atom syntax acceptance matches the PMS grammar for each EAPI and round-trips"
LEVEL = "exploration"
TECHNIQUE = ("acceptance differential vs. independent PMS atom grammar under every EAPI + str/parse round trip; "
             "constructive atoms, single-edit mutations, bounded enumeration of part combinations, char-level fuzz")
DESIGN_REF = "DESIGN.md §3 C03"
LEVEL_TEXT = (
    "Generated-input search: constructively valid atoms (features drawn independently of the EAPI), one/two-edit "
    "mutations of them aimed at delimiters and the package-name/version boundary, a bounded product of part "
    "alternatives, and (thorough) raw text over the atom alphabet; each string is tried under EAPI 0-9 and without "
    "EAPI and compared with a PMS reference acceptor; accepted atoms are field-checked and round-tripped."
)
LEVEL_NOTE = ("Trusted: vf/ref/pms_atom.py (my transcription of PMS ch.3 + 8.3 and the EAPI feature tables). "
              "No proof of absence; inputs are short (<~60 chars) over a 40-character alphabet.")
RULE = (
    "each case = one string tried under 11 EAPI settings (evaluations counts string x EAPI); sources: focus (exhaustive small "
    "families: slot deps of 1-4 '/'-pieces x operator positions, repo and USE shapes, under 3 heads), gen.atoms.atom_case "
    "(valid atom, 60% with 1-2 edits), enum (product of blocker x operator x name x version x slot x repo x use alternatives "
    "incl. invalid ones), fuzz (thorough: hypothesis st.text over the 41-char atom alphabet + random splices of atom fragments). non-trivial = valid under >=1 EAPI and uses an optional part (blocker, operator, "
    "slot, sub-slot, slot operator, repo, USE dep), or acceptance differs between EAPIs, or a mutation whose acceptance "
    "vector differs from its parent's (lands across the boundary); distinct = distinct string"
)
ASSUMPTIONS = [
    "vf/ref/pms_atom.py is a faithful transcription of the PMS dependency-specification grammar and EAPI feature tables",
    "'~' with a revision is malformed (portage/pkgcore convention, pinned by pkgcore's tests); ':slot/subslot=' is legal for EAPI>=5",
    "'no EAPI given' = atom()'s default eapi argument; '::repo' legal only there",
    "non-MalformedAtom exceptions on invalid strings are outside the statement (counted, not violations)",
]
BUDGET = {"quick": 40, "thorough": 780}

EAPIS = R.EAPIS
SEEDS = st.integers(0, 2**64 - 1)  # one draw seeds a private random.Random building BATCH cases (see vf/gen/atoms.py)
# the reference's feature set is piecewise constant over these groups (asserted below): one parse per group
_GROUPS = (("0",), ("1",), ("2", "3"), ("4",), ("5", "6", "7", "8", "9"), (None,))
for _g in _GROUPS:
    assert len({R.features_for(_e) for _e in _g}) == 1, _g
assert tuple(e for g in _GROUPS for e in g) == tuple(EAPIS)
BATCH = 25  # strings built from one hypothesis-drawn seed


def _ref_all(s):
    """{eapi: Fields | Reject}: one EAPI-independent parse, then the feature gates per EAPI group"""
    try:
        f = R.parse_any(s)
    except R.Reject as r:
        return dict.fromkeys(EAPIS, r)
    out = {}
    for g in _GROUPS:
        rule = R.gate(f, g[0])
        v = f if rule is None else R.Reject(rule)
        for e in g:
            out[e] = v
    return out


class Env:
    def __init__(self):
        from pkgcore.ebuild import atom as atom_mod
        from pkgcore.ebuild import errors
        from pkgcore.test.misc import FakePkg, FakeRepo

        self.atom = atom_mod.atom
        self.Malformed = errors.MalformedAtom
        self.FakePkg = FakePkg
        self.FakeRepo = FakeRepo
        self._pkgs = {}
        self._repos = {}

    def parse(self, s, eapi, nocache=False):
        kw = {}
        if eapi is not None:
            kw["eapi"] = eapi
        if nocache:
            kw["disable_inst_caching"] = True
        return self.atom(s, **kw)

    def pkg(self, cpvstr, slot, subslot, repo, use, iuse):
        k = (cpvstr, slot, subslot, repo, use, iuse)
        p = self._pkgs.get(k)
        if p is None:
            r = self._repos.get(repo)
            if r is None:
                r = self._repos[repo] = self.FakeRepo(repo_id=repo)
            if len(self._pkgs) > 20000:
                self._pkgs.clear()
            p = self._pkgs[k] = self.FakePkg(cpvstr, slot=slot, subslot=subslot, repo=r, use=use, iuse=iuse)
        return p


_ENV = None


def env():
    global _ENV
    if _ENV is None:
        _ENV = Env()
    return _ENV


def _ename(e):
    return "none" if e is None else e


def _norm_fields(f):
    """reference fields in comparable form (use sorted, revision as int)"""
    d = {k: f[k] for k in ("blocks", "strong", "op", "category", "package", "version", "slot", "subslot", "slot_op", "repo")}
    d["revision"] = None if f["version"] is None else int(f["revision"] or 0)
    d["use"] = None if f["use"] is None else sorted(f["use"])
    return d


def _pk_fields(a):
    return {
        "blocks": bool(a.blocks), "strong": bool(a.blocks_strongly), "op": a.op, "category": a.category,
        "package": a.package, "version": a.version,
        "revision": None if a.version is None else int(str(a.revision)) if a.revision is not None else 0,
        "slot": a.slot, "subslot": a.subslot, "slot_op": a.slot_operator, "repo": a.repo_id,
        "use": None if a.use is None else sorted(a.use),
    }


def _translate_digits(s):
    out = []
    changed = False
    for ch in s:
        if not ch.isascii():
            try:
                out.append(str(unicodedata.digit(ch)))
                changed = True
                continue
            except ValueError:
                pass
        out.append(ch)
    return "".join(out) if changed else None


def _attribute(s, e, pk_accepts):
    """root-cause key for an acceptance disagreement under eapi e, or None when the string combines
    several independent causes (each of them is reported by simpler strings; a combined key would only
    multiply buckets)"""
    if pk_accepts:
        # single causes first: one text repair or one relaxed rule makes the reference accept
        t = _translate_digits(s)
        singles = []
        if t is not None and R.accepts(t, e):
            singles.append("accept-invalid:unicode-digit")
        if "\n" in s and R.accepts(s.replace("\n", ""), e):
            singles.append("accept-invalid:newline")
        for flag in R.DIALECT_FLAGS:
            if R.accepts(s, e, {flag}):
                singles.append("deviation:" + flag)
        if singles:
            return singles[0]
        # combination of the above?
        u = (t if t is not None else s).replace("\n", "")
        if R.accepts(u, e, set(R.DIALECT_FLAGS)):
            return None
        return "accept-invalid:" + str(R.why(s, e))
    for flag in R.DIALECT_FLAGS:
        if not R.accepts(s, e, {flag}):
            return "deviation:" + flag
    f = R.parse(s, e)
    parts = sorted(f["features"])
    if f["op"]:
        parts.append("op" + ("-glob" if f["op"] == "=*" else ""))
    if f["blocks"]:
        parts.append("blocker")
    return "reject-valid:" + ("+".join(parts) or "plain")


def _universe(E, f):
    """packages around reference fields f: one-dimension-at-a-time variations of a matching baseline"""
    cat, name = f["category"], f["package"]
    ver = f["version"] or "1"
    rev = f["revision"]
    vers = [(ver, rev), (ver, None), (ver, "0"), (ver, "1"), (ver, "2"), ("0", None), ("1", None), ("1.1", None), ("10", None),
            ("99999999", None), (ver + "_p1", rev), (ver + "_alpha", None)]
    if ver.replace(".", "").isdigit():  # purely numeric: these stay valid versions
        vers += [(ver + ".1", None), (ver + "0", None), (ver + "a", None)]
    slot = f["slot"] or "0"
    sub = f["subslot"] or slot
    repo = f["repo"] or "gentoo"
    flags = []
    for item in f["use"] or ():
        x = item.rstrip("?=").lstrip("!-")
        if x.endswith(")"):
            x = x[:-3]
        if x not in flags:
            flags.append(x)
    flags = flags[:3]
    use_states = []
    for n in range(len(flags) + 1):
        for on in itertools.combinations(flags, n):
            use_states.append((tuple(on), tuple(flags)))
    use_states.append(((), ()))  # flags missing from IUSE
    if flags:
        use_states.append(((), tuple(flags[1:])))
    base_use = use_states[0] if not flags else (tuple(flags), tuple(flags))
    out = []

    def add(c, n, v, s_, ss, r, u):
        fv = v[0] if v[1] is None else f"{v[0]}-r{v[1]}"
        out.append(E.pkg(f"{c}/{n}-{fv}", s_, ss, r, u[0], u[1]))

    for v in vers:
        add(cat, name, v, slot, sub, repo, base_use)
    add(cat, name + "x", vers[0], slot, sub, repo, base_use)
    add(cat + "x", name, vers[0], slot, sub, repo, base_use)
    add(cat, name, vers[0], slot + "x", sub, repo, base_use)
    add(cat, name, vers[0], slot, sub + "x", repo, base_use)
    add(cat, name, vers[0], slot, sub, repo + "x", base_use)
    for u in use_states:
        add(cat, name, vers[0], slot, sub, repo, u)
    return out


def check_string(ctx, s, parent=None, mut=None, gen=None, source="gen", parent_features=None):
    E = env()
    case = {"s": s}
    if parent is not None:
        case["parent"] = parent
    if mut is not None:
        case["mut"] = mut

    # ---- reference verdicts
    ref = _ref_all(s)
    ref_ok = {e: not isinstance(v, R.Reject) for e, v in ref.items()}
    any_ok = any(ref_ok.values())
    all_ok = all(ref_ok.values())

    # ---- harness self-check: generator vs reference on constructive atoms
    if gen is not None:
        gf, gfeat = gen
        for e in EAPIS:
            want = set(gfeat) <= R.features_for(e)
            if want != ref_ok[e]:
                raise core.HarnessError(f"generator/reference disagree on {s!r} eapi={e}: gen says valid={want}, ref={ref[e]!r}")
        f_ok = ref[None]
        a, b = _norm_fields(gf), _norm_fields(f_ok)
        if a != b or set(gfeat) != set(f_ok["features"]):
            raise core.HarnessError(f"generator/reference fields differ for {s!r}: {a} vs {b}")

    # ---- classification
    classes = ["src:" + source]
    feats_present = False
    if any_ok:
        f0 = ref[None] if ref_ok[None] else next(v for v in ref.values() if not isinstance(v, R.Reject))
        for k, cl in (("blocks", "f:blocker"), ("strong", "f:strong_blocker"), ("slot", "f:slot"), ("subslot", "f:subslot"),
                      ("slot_op", "f:slot_op"), ("repo", "f:repo"), ("use", "f:use")):
            if f0[k]:
                classes.append(cl)
                feats_present = True
        if f0["op"]:
            classes.append("f:op" + f0["op"])
            feats_present = True
        if "use_defaults" in f0["features"]:
            classes.append("f:use_default")
        if f0["use"] and any(x[-1] in "?=" for x in f0["use"]):
            classes.append("f:use_transitive")
        if f0["version"] is None and "-" in f0["package"]:
            classes.append("pkgname:hyphenated")
        classes.append("verdict:valid_all" if all_ok else "verdict:gated")
    else:
        classes.append("verdict:invalid")
        rule = ref[None].rule
        classes.append("rule:" + rule)
    flipped = False
    if parent is not None:
        if parent_features is not None:  # parent is a constructive atom: valid iff its features are legal
            pf = set(parent_features)
            flipped = any((pf <= R.features_for(g[0])) != ref_ok[g[0]] for g in _GROUPS)
        else:
            pref = _ref_all(parent)
            flipped = any(isinstance(pref[e], R.Reject) == ref_ok[e] for e in EAPIS)
        classes.append("mut:flip" if flipped else "mut:same")
        if mut:
            classes.append("mut:" + mut.split("+")[0].split(":")[0])
    nontrivial = (any_ok and feats_present) or (any_ok and not all_ok) or flipped
    ctx.case(case, nontrivial=nontrivial, classes=classes, key=s, n=len(EAPIS))

    # ---- pkgcore verdicts
    got = {}
    for e in EAPIS:
        try:
            got[e] = E.parse(s, e)
        except E.Malformed:
            got[e] = None
        except Exception as exc:  # noqa: BLE001
            b = core.pkg_frame_bucket(exc)
            if b is None:
                raise
            if ref_ok[e]:
                ctx.violation(b, case, f"eapi={_ename(e)}: valid atom raised {type(exc).__name__}: {exc}")
            else:
                ctx.count("unclean_reject:" + type(exc).__name__)
                if source != "fuzz" or len(s) < 8:
                    lst = ctx.notes.setdefault("unclean_reject_samples", [])
                    if len(lst) < 8 and s not in lst:
                        lst.append(s)
            got[e] = None

    # ---- acceptance differential
    diffs = {}
    for e in EAPIS:
        pk_ok = got[e] is not None
        if pk_ok != ref_ok[e]:
            b = _attribute(s, e, pk_ok)
            if b is None:
                ctx.count("multi_cause_disagreement_skipped")
                continue
            diffs.setdefault((b, pk_ok), []).append(_ename(e))
    for (bucket, pk_ok), es in diffs.items():
        if pk_ok:
            why = sorted({str(ref[None if x == "none" else x].rule) for x in es})
            ctx.violation(bucket, case, f"pkgcore accepts {s!r} under eapi {','.join(es)}; PMS reference rejects ({','.join(why)})")
        else:
            ctx.violation(bucket, case, f"pkgcore rejects {s!r} under eapi {','.join(es)}; PMS reference accepts")

    # ---- accepted by both: fields + round trip
    did_universe = False
    for g in _GROUPS:
        e = next((x for x in g if got[x] is not None and ref_ok[x]), None)
        if e is None:
            continue
        a = got[e]
        f = ref[e]

        def body(a=a, f=f, e=e):
            nonlocal did_universe
            pf, rf = _pk_fields(a), _norm_fields(f)
            for k in rf:
                if pf[k] != rf[k]:
                    ctx.violation(f"fields:{k}", case, f"eapi={_ename(e)} {s!r}: atom.{k}={pf[k]!r}, grammar says {rf[k]!r}")
            r = str(a)
            try:
                f2 = f if r == s else R.parse(r, e)
            except R.Reject as rj:
                ctx.violation("roundtrip:render-invalid", case, f"eapi={_ename(e)} str(atom({s!r}))={r!r} is not a valid atom ({rj.rule})")
                return
            if _norm_fields(f2) != rf:
                ctx.violation("roundtrip:render-fields", case, f"eapi={_ename(e)} str(atom({s!r}))={r!r} describes {_norm_fields(f2)} not {rf}")
            try:
                a2 = E.parse(r, e, nocache=True)
            except E.Malformed as m:
                ctx.violation("roundtrip:reparse-rejected", case, f"eapi={_ename(e)} str(atom({s!r}))={r!r} is rejected: {m}")
                return
            if not (a2 == a) or (a2 != a) or not (a == a2):
                ctx.violation("roundtrip:not-equal", case, f"eapi={_ename(e)} atom({r!r}) != atom({s!r})")
            r2 = str(a2)
            if r2 != r:
                ctx.violation("roundtrip:str-unstable", case, f"eapi={_ename(e)} str twice: {r!r} -> {r2!r}")
            if not did_universe and (r != s or core.h64(s) % 8 == 0):
                did_universe = True
                ctx.count("match_universe_checks")
                for p in _universe(E, f):
                    m1, m2 = bool(a.match(p)), bool(a2.match(p))
                    if m1 != m2:
                        ctx.violation("roundtrip:match-differs", case,
                                      f"eapi={_ename(e)} atom({s!r}).match={m1} but atom({r!r}).match={m2} for {p.cpvstr} "
                                      f"slot={p.slot}/{p.subslot} repo={p.repo.repo_id} use={sorted(p.use)}")
                        break

        core.guarded(ctx, case, body)


# ---- bounded enumeration ---------------------------------------------------------
ENUM_PARTS = {
    "blocker": ["", "!", "!!", "!!!"],
    "op": ["", "=", "~", ">=", "<", "=*"],
    "name": ["c/p", "c/p-r1", "c/p-1x", ".c/p", "c/+p", "c/p-", "c/p-1-r1x", "c/1-r1"],
    "ver": ["", "-1", "-1-r1", "-1a_p1-r0", "-1-r", "-1A", "-01.0"],
    "slot": ["", ":0", ":0/1", ":0=", ":0/1=", ":*", ":=", ":-0", ":.0", ":+0", ":0/", ":", ":0/+1", ":0/1/2", ":0/1/2=", ":/0", ":0//1"],
    "repo": ["", "::r", "::-r", "::", "::r.x"],
    "use": ["", "[a]", "[-a,b?]", "[!a=]", "[a(+)]", "[-a(-),b(+)?]", "[]", "[a,]", "[!a]", "[-a?]", "[a(+)", "[a()]"],
}


def enum_strings():
    P = ENUM_PARTS
    for b, op, name, ver, sl, rp, us in itertools.product(P["blocker"], P["op"], P["name"], P["ver"], P["slot"], P["repo"], P["use"]):
        star = "*" if op == "=*" else ""
        yield b + op.rstrip("*") + name + ver + star + sl + rp + us


def focus_strings():
    """small exhaustive families around the structural boundaries of each optional part, every other
    part at a default: slot dependencies composed of 1-4 '/'-separated pieces (valid, empty, badly
    starting) with the slot operators before / after / doubled, repository and USE-dependency shapes,
    each under a few heads (plain, versioned, blocked) and followed or not by further parts"""
    heads = ["c/p", "=c/p-1", "!!>=c/p-1-r1"]
    good, odd = ["0", "a1"], ["", "+1"]
    slots = []
    for k in (1, 2, 3, 4):
        for pieces in itertools.product(good + (odd if k <= 3 else []), repeat=k):
            if k >= 3 and sum(p in odd for p in pieces) > 1:
                continue
            body = "/".join(pieces)
            for pre, post in (("", ""), ("", "="), ("", "*"), ("=", ""), ("*", ""), ("", "==")):
                slots.append(":" + pre + body + post)
    slots += [":=", ":*", ":=/0", ":*/0", ":0=/1", ":0*/1", ":0/=1", ":0/1=x", ":0 /1", ":0/1 "]
    for h in heads:
        for sl in slots:
            for tail in ("", "[a]", "::r"):
                yield h + sl + tail
    for h in heads:
        for rp in ENUM_PARTS["repo"] + ["::r::s", "::r:0", ":0::r::", "::r/s"]:
            for pre in ("", ":0", ":0/1="):
                for tail in ("", "[a]"):
                    yield h + pre + rp + tail
        for us in ENUM_PARTS["use"] + ["[a][b]", "[a]b", "[[a]]", "[a?,!b=,-c]", "[a(+)=]", "[!a(-)?]", "[a(+)(-)]", "[a?(+)]", "[-a=]", "[!-a?]"]:
            for pre in ("", ":0", "::r", ":0/1=::r"):
                yield h + pre + us
        for sl in (":0[a]:1", "[a]:0", "[a]::r", ":0::r:1"):
            yield h + sl


def plan(tier, seed):
    # order: the small exhaustive family first, then the high-yield random/mutation shards, the big product last;
    # every task finishes a minimum first chunk even when it is started after the budget guard (see run_task)
    tasks = [{"task": "focus", "slice": i, "nslices": 3} for i in range(3)]
    if tier == "quick":
        for i in range(12):
            tasks.append({"task": "gen", "examples": 2500})
        for i in range(3):
            tasks.append({"task": "enum", "slice": i, "nslices": 3, "sample": 0.025})
    else:
        for i in range(16):
            tasks.append({"task": "gen", "examples": 90000})
        for i in range(16):
            tasks.append({"task": "fuzz", "examples": 100000, "text_examples": 20000})
        for i in range(16):
            tasks.append({"task": "enum", "slice": i, "nslices": 16, "sample": 1.0})
    return tasks


class _FirstChunk:
    """ctx stand-in for core.hyp_run that ignores the wall-clock guard: used for the minimum first chunk"""

    def __init__(self, ctx):
        self.seed, self.shard = ctx.seed, ctx.shard

    def out_of_time(self):
        return False


MIN_SEEDS = 8      # x BATCH strings are always judged by a gen/fuzz task
MIN_ENUM = 512     # strings always judged by an enum task


def run_task(ctx, task, **kw):
    import gc

    gc.freeze()  # forked worker: keep the collector from touching (and so copying) every page inherited from the parent
    if task in ("gen", "fuzz"):
        # hypothesis supplies the seeds; the cases are built and checked outside the hypothesis test
        # function (running the oracle inside it was ~3x slower: per-example bookkeeping + allocator churn)
        if task == "fuzz":
            # native hypothesis text over the atom alphabet (char-level fuzz), collected first, judged below
            texts = []
            core.hyp_run(ctx, st.text(G.ALPHABET, max_size=20), texts.append, kw.get("text_examples", 0), chunk=2000, seed_salt=4)
            for i, t in enumerate(texts):
                if i % 256 == 0 and ctx.out_of_time():
                    break
                check_string(ctx, t, source="fuzz")
        seeds = []
        salt = 3 if task == "fuzz" else 0
        nseeds = kw["examples"] // BATCH
        core.hyp_run(_FirstChunk(ctx), SEEDS, seeds.append, min(MIN_SEEDS, nseeds), chunk=1000, seed_salt=salt + 10)
        core.hyp_run(ctx, SEEDS, seeds.append, max(0, nseeds - MIN_SEEDS), chunk=1000, seed_salt=salt)
        for i, seed in enumerate(seeds):
            if i >= MIN_SEEDS and ctx.out_of_time():
                break
            rnd = random.Random(f"{seed}:{ctx.seed}:{ctx.shard}")  # hypothesis repeats small seeds (0, 1, ...) in every shard
            for _ in range(BATCH):
                if task == "fuzz":
                    check_string(ctx, G.build_fuzz_text(rnd), source="fuzz")
                    continue
                c = G.build_atom_case(rnd)
                gen = (c["fields"], c["features"]) if c["fields"] is not None else None
                check_string(ctx, c["s"], parent=c["parent"], mut=c["mut"], gen=gen, source="gen", parent_features=c["parent_features"])
    elif task == "focus":
        fam = list(dict.fromkeys(focus_strings()))
        for s in fam[kw.get("slice", 0)::kw.get("nslices", 1)]:
            check_string(ctx, s, source="focus")
        ctx.note("exhaustive_focus", True)
        ctx.note("focus_family_size", len(fam) if kw.get("slice", 0) == 0 else 0)
    elif task == "enum":
        rnd = random.Random(ctx.seed * 7919 + kw["slice"])  # only selects which slice of the finite product a quick run visits
        sample = kw["sample"]
        full = sample >= 1.0
        n = 0
        for i, s in enumerate(enum_strings()):
            if i % kw["nslices"] != kw["slice"]:
                continue
            if not full and rnd.random() >= sample:
                continue
            if n >= MIN_ENUM and n % 256 == 0 and ctx.out_of_time():
                full = False
                break
            n += 1
            check_string(ctx, s, source="enum")
        ctx.note("exhaustive_enum", bool(full))
    else:
        raise core.HarnessError(f"unknown task {task}")


def replay(ctx, case):
    check_string(ctx, case["s"], parent=case.get("parent"), mut=case.get("mut"), source="replay")


def shrink_case(ctx, bucket, case):
    """delta-debugging over characters (remove chunks of decreasing size) keeping the bucket"""
    s = case["s"]
    if len(s) <= 12:
        return None
    budget = [400]  # oracle calls

    def hits(t):
        if budget[0] <= 0:
            return False
        budget[0] -= 1
        c = core.Ctx(ID, ctx.tier, ctx.seed)
        try:
            check_string(c, t, source="shrink")
        except core.HarnessError:
            return False
        return bucket in c.violations

    if not hits(s):
        return None
    size = max(1, len(s) // 2)
    while size >= 1 and budget[0] > 0:
        i = 0
        progressed = False
        while i < len(s):
            t = s[:i] + s[i + size:]
            if t and hits(t):
                s = t
                progressed = True
            else:
                i += size
        if size == 1 and not progressed:
            break
        size = size // 2 if size > 1 else (1 if progressed else 0)
    return {"s": s}
