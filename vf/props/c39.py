"""C39 Bug update list changes compose like applying them in sequence; wire payload = exactly the fields set.

Part 1 (exhaustive): every ListChange over the alphabet {a,b,c,d} that the constructor accepts (81 add/remove pairs
with disjoint sides + 16 `set`s = 97 changes), every ordered pair of them, every initial list (16 subsets).  The
combination `c1 | c2` is observed through `to_wire()` and interpreted by the reference Bugzilla list-update model
(vf.ref.bz.apply_wire: `set` replaces, else add then remove); it must equal applying c1's and then c2's *description*
(vf.ref.bz.apply_change) -- or `|` must refuse with BugzillaUsageError.  Triples (left- and right-nested) over
{a,b,c}.  The same pairs are also run with integer values (bug ids, stringified on the wire).

Part 2 (hypothesis): random BugUpdates (direct and through the sanity_check/resolve/obsoleted_by shorthands); the
wire dict must have exactly the keys {ids} + one per field that was given (wire names from the Bugzilla REST docs),
with the given values.

Values are compared as sets (Bugzilla list fields are sets); duplicates/ordering on the wire are not judged.
"""

import itertools

from hypothesis import strategies as st

from .. import core
from ..ref import bz as R

ID = "C39"
TITLE = "Bug update list changes compose like applying them in sequence"
LEVEL = "exploration"
TECHNIQUE = "bounded-exhaustive pairs/triples of list changes vs. reference list-update model; hypothesis BugUpdates vs. expected wire key set"
DESIGN_REF = "DESIGN.md §3 C39"
LEVEL_TEXT = (
    "Exhaustive over a 4-letter alphabet: all 97 constructible changes squared, on all 16 initial lists (both tiers), "
    "plus all triples over 3 letters on all 8 lists (quick: seeded slice); generated BugUpdates for the wire key set."
)
LEVEL_NOTE = "Trusted: vf/ref/bz.py apply_change/apply_wire (Bugzilla add/remove/set semantics). Exhaustive only within the stated alphabet."
RULE = (
    "pairs (c1,c2) of add/remove/set changes over {a,b,c,d} x initial subset L; non-trivial = both changes non-empty "
    "and they interact (share a value, or one of them is a set); distinct = (c1,c2[,c3],nesting), each evaluated on every L. updates: every field alone x every "
    "vocabulary value (enumerated) + random BugUpdates with each scalar field from {unset, '', '0', ' ', text} and each "
    "list field from {unset, no-op change, add/remove, set incl. empty}; non-trivial = >=2 wire keys expected beyond "
    "ids incl. one list change or one falsy-but-given value (set-to-empty counts as set: only None means unset)"
)
ASSUMPTIONS = [
    "Bugzilla applies {'add','remove'} as (L | add) - remove and {'set'} as replacement; list fields are sets",
    "refusing a combination (BugzillaUsageError) is always acceptable, per the statement",
]
BUDGET = {"quick": 50, "thorough": 900}


def changes(alphabet):
    """every change the constructor accepts, as JSON: {"add":[..],"remove":[..]} or {"set":[..]}"""
    out = []
    for assign in itertools.product((0, 1, 2), repeat=len(alphabet)):
        out.append({
            "add": [x for x, a in zip(alphabet, assign) if a == 1],
            "remove": [x for x, a in zip(alphabet, assign) if a == 2],
        })
    for r in range(len(alphabet) + 1):
        for s in itertools.combinations(alphabet, r):
            out.append({"set": list(s)})
    return out


def subsets(alphabet):
    return [list(s) for r in range(len(alphabet) + 1) for s in itertools.combinations(alphabet, r)]


def _mods():
    from pkgcore.bugzilla import changes as C, errors

    return C, errors


def mk_change(C, d, conv=str):
    if "set" in d:
        return C.ListChange.setting(*[conv(x) for x in d["set"]])
    return C.ListChange(add=tuple(conv(x) for x in d["add"]), remove=tuple(conv(x) for x in d["remove"]))


def ref_apply(d, cur):
    return R.apply_change(d.get("add", ()), d.get("remove", ()), d.get("set"), cur)


def is_empty(d):
    return "set" not in d and not d["add"] and not d["remove"]


def interacts(seq):
    if any(is_empty(d) for d in seq):
        return False
    if any("set" in d for d in seq):
        return True
    seen = set()
    for d in seq:
        vals = set(d["add"]) | set(d["remove"])
        if vals & seen:
            return True
        seen |= vals
    return False


def shape(d):
    if "set" in d:
        return "set"
    if is_empty(d):
        return "noop"
    return "+".join(k for k in ("add", "remove") if d[k])


def check_seq(ctx, seq, inits, nesting="left", ints=False, record=True):
    """seq: 2 or 3 change descriptions. Combine with | (left or right nested), compare on every initial list."""
    C, ERR = _mods()
    conv = (lambda x: "abcd".index(x) + 1) if ints else str
    sconv = (lambda x: str("abcd".index(x) + 1)) if ints else str
    base = {"kind": "seq", "changes": seq, "nesting": nesting, "ints": ints}

    def combine():
        objs = [mk_change(C, d, conv) for d in seq]
        if nesting == "left":
            acc = objs[0]
            for o in objs[1:]:
                acc = acc | o
        else:
            acc = objs[-1]
            for o in reversed(objs[:-1]):
                acc = o | acc
        return acc.to_wire(), bool(acc)

    refused = False
    try:
        res = core.guarded(ctx, base, combine, expected=(ERR.BugzillaUsageError,))
    except ERR.BugzillaUsageError:
        refused = True
        res = None
    nt = interacts(seq)
    cls = ["triple" if len(seq) == 3 else "pair", "shapes:" + ">".join(shape(d) for d in seq)] + (["refused"] if refused else [])
    if ints:
        cls.append("int_values")
    if record:
        # one record per combination, counted once per initial list it is evaluated on (recording 16 separate JSON
        # cases per pair was most of the run time); distinct = the combination
        ctx.case(dict(base, inits=len(inits)), nontrivial=nt, classes=cls, key=core.jdump([seq, nesting, ints]), n=len(inits))
    if refused or core.crashed(res):
        return
    wire, truthy = res
    for L in inits:
        cur = frozenset(L)
        for d in seq:
            cur = ref_apply(d, cur)
        want = frozenset(sconv(x) for x in cur)
        try:
            got = R.apply_wire(wire, [sconv(x) for x in L])
        except ValueError as e:
            ctx.violation("wire:malformed-list-change", dict(base, init=L), f"{wire}: {e}")
            return
        if got != want:
            first_set = next((i for i, d in enumerate(seq) if "set" in d), None)
            if first_set is not None and first_set < len(seq) - 1 and "set" not in wire:
                bucket = "compose:set-then-add-remove-loses-set"
            elif first_set is not None:
                bucket = "compose:set"
            else:
                bucket = "compose:add-remove"
            ctx.violation(
                bucket, dict(base, init=L),
                f"{' | '.join(map(str, seq))} -> wire {wire}; on {sorted(L)} gives {sorted(got)}, applying in sequence gives {sorted(want)}",
            )
            break


# --------------------------------------------------------------------------- BugUpdate wire

WIRE_NAME = {
    "status": "status", "resolution": "resolution", "dupe_of": "dupe_of", "summary": "summary",
    "assigned_to": "assigned_to", "whiteboard": "whiteboard", "deadline": "deadline", "cc": "cc",
    "keywords": "keywords", "blocks": "blocks", "depends_on": "depends_on", "see_also": "see_also",
    "groups": "groups", "flags": "flags", "comment": "comment", "package_list": "cf_stabilisation_atoms",
    "runtime_testing_required": "cf_runtime_testing_required",
}
LIST_FIELDS = ("cc", "keywords", "blocks", "depends_on", "see_also", "groups")
STATUSES = ["UNCONFIRMED", "CONFIRMED", "IN_PROGRESS", "VERIFIED"]
RESOLUTIONS = ["FIXED", "INVALID", "WONTFIX", "OBSOLETE", "TEST-REQUEST", "DUPLICATE"]


def list_change():
    vals = st.sampled_from(["a", "b", "c", "d"])
    addrem = st.lists(st.tuples(vals, st.sampled_from([1, 2])), max_size=3, unique_by=lambda t: t[0]).map(
        lambda ps: {"add": [v for v, k in ps if k == 1], "remove": [v for v, k in ps if k == 2]}
    )
    return st.one_of(addrem, addrem, st.lists(vals, max_size=2, unique=True).map(lambda s: {"set": s}))


SCALAR_TEXT = ["", "0", " ", "None", "x", "new summary", "B3 [ebuild]"]  # "" = documented way to clear a field
SCALAR_FIELDS = {
    "summary": SCALAR_TEXT,
    "assigned_to": ["", "0", "m@gentoo.org"],
    "whiteboard": SCALAR_TEXT,
    "deadline": ["2024-03-01", "1999-12-31"],
    "package_list": ["", "=dev-libs/a-1 amd64", "dev-libs/a *\n"],
    "runtime_testing_required": ["---", "Yes", "No", "Manual"],
}
UNSET = "<unset>"


def update_case():
    """every scalar field independently from {unset, "", falsy-looking text, ordinary text}; every list field from
    {unset, empty change (no-op), add/remove, set (incl. empty set)}; flags from {unset, (), non-empty}; comment from
    {unset, "" body, text}.  BugUpdate documents None (the default) as "leave the bug alone", so any other value --
    including "" -- is a field that was set and must be on the wire."""
    fields = {n: st.sampled_from([UNSET, UNSET] + vals) for n, vals in SCALAR_FIELDS.items()}
    fields["flags"] = st.one_of(
        st.just(UNSET), st.just(UNSET),
        st.lists(st.tuples(st.sampled_from(["sanity-check", "review"]), st.sampled_from(["+", "-", "?", "X"]),
                           st.sampled_from([None, "a@gentoo.org", ""])).map(list), max_size=2))
    fields["comment"] = st.one_of(st.just(UNSET), st.just(UNSET),
                                  st.tuples(st.sampled_from(["", "done", "line1\nline2"]), st.booleans()).map(list))
    for f in LIST_FIELDS:
        fields[f] = st.one_of(st.just(UNSET), st.just(UNSET), st.just({"add": [], "remove": []}), list_change())
    resolution = st.one_of(
        st.none(),
        st.tuples(st.just("open"), st.sampled_from(STATUSES)),
        st.tuples(st.just("resolved"), st.sampled_from(RESOLUTIONS), st.integers(0, 5)),
        st.tuples(st.just("verified"), st.sampled_from(RESOLUTIONS), st.integers(0, 5)),
    )
    names = sorted(fields)

    @st.composite
    def mk(draw):
        vals = {}
        for n in names:
            v = draw(fields[n])
            if v != UNSET:
                vals[n] = v
        res = draw(resolution)
        if res is not None:
            if res[0] == "open":
                vals["status"] = res[1]
            else:
                vals["status"] = "RESOLVED" if res[0] == "resolved" else "VERIFIED"
                vals["resolution"] = res[1]
                if res[1] == "DUPLICATE":
                    vals["dupe_of"] = res[2]
        via = draw(st.sampled_from(["direct", "direct", "direct", "sanity_check", "resolve", "obsoleted_by"]))
        ids = draw(st.lists(st.integers(1, 999999), min_size=1, max_size=3))
        extra = None
        if via == "sanity_check":
            # the shorthand's own positional parameter is called `status`, so a bug status cannot be passed along
            for k in ("flags", "comment", "status", "resolution", "dupe_of"):
                vals.pop(k, None)
            extra = [draw(st.sampled_from([True, False, None])), draw(st.sampled_from([None, "", "broken"]))]
        elif via == "resolve":
            for k in ("status", "resolution", "dupe_of", "comment"):
                vals.pop(k, None)
            extra = [draw(st.sampled_from(["FIXED", "OBSOLETE", "WONTFIX"])), draw(st.sampled_from([None, "", "all done"]))]
        elif via == "obsoleted_by":
            for k in ("status", "resolution", "dupe_of", "see_also"):
                vals.pop(k, None)
            extra = [draw(st.integers(1, 999999))]
        return {"kind": "update", "via": via, "extra": extra, "fields": vals, "ids": ids}

    return mk()


def enumerated_updates():
    """deterministic floor under the random updates: every field alone with every value of its vocabulary (so each
    set-to-empty / falsy value is exercised on its own), then the same next to a status change"""
    singles = []
    for n, vals in SCALAR_FIELDS.items():
        singles += [(n, v) for v in vals]
    for n in LIST_FIELDS:
        singles += [(n, d) for d in ({"add": [], "remove": []}, {"add": ["a"], "remove": []}, {"add": [], "remove": ["b"]},
                                     {"add": ["a"], "remove": ["b"]}, {"set": []}, {"set": ["c"]})]
    singles += [("flags", []), ("flags", [["sanity-check", "X", None]]), ("flags", [["review", "?", ""]]),
                ("comment", ["", False]), ("comment", ["", True]), ("comment", ["done", False]),
                ("dupe_of", None)]
    for n, v in singles:
        for extra in ({}, {"status": "CONFIRMED"}):
            f = dict(extra)
            if n == "dupe_of":
                f.update(status="RESOLVED", resolution="DUPLICATE", dupe_of=0)
            else:
                f[n] = v
            yield {"kind": "update", "via": "direct", "extra": None, "fields": f, "ids": [1]}
    yield {"kind": "update", "via": "direct", "extra": None, "fields": {}, "ids": [1, 2]}


def check_update(ctx, case, record=True):
    import datetime

    C, ERR = _mods()
    from pkgcore.bugzilla import enums as E
    from pkgcore.bugzilla.pkglist import PackageList

    f = case["fields"]
    kwargs = {}
    expect = {"ids": list(case["ids"])}
    for name, v in f.items():
        w = WIRE_NAME[name]
        if name == "status":
            kwargs[name] = E.Status(v); expect[w] = v
        elif name == "resolution":
            kwargs[name] = E.Resolution(v); expect[w] = v
        elif name == "dupe_of":
            kwargs[name] = v; expect[w] = v
        elif name in ("summary", "assigned_to", "whiteboard"):
            kwargs[name] = v; expect[w] = v
        elif name == "deadline":
            kwargs[name] = datetime.date.fromisoformat(v); expect[w] = v
        elif name in LIST_FIELDS:
            conv = (lambda x: "abcd".index(x) + 1) if name in ("blocks", "depends_on") else str
            kwargs[name] = mk_change(C, v, conv)
            if not is_empty(v):
                expect[w] = {k: [str(conv(x)) for x in vals] for k, vals in v.items() if vals or k == "set"}
        elif name == "flags":
            kwargs[name] = tuple(C.FlagChange(n, E.FlagStatus(s), requestee=r) for n, s, r in v)
            if v:
                expect[w] = [dict({"name": n, "status": s}, **({"requestee": r} if r is not None else {})) for n, s, r in v]
        elif name == "comment":
            kwargs[name] = C.NewComment(v[0], is_private=v[1])
            expect[w] = dict({"body": v[0]}, **({"is_private": True} if v[1] else {}))
        elif name == "package_list":
            kwargs[name] = PackageList(v); expect[w] = v
        elif name == "runtime_testing_required":
            kwargs[name] = E.RuntimeTesting(v); expect[w] = v
        else:
            raise core.HarnessError(name)
    via, extra = case["via"], case["extra"]

    def make():
        if via == "direct":
            return C.BugUpdate(**kwargs)
        if via == "sanity_check":
            return C.BugUpdate.sanity_check(extra[0], comment=extra[1], **kwargs)
        if via == "resolve":
            return C.BugUpdate.resolve(E.Resolution(extra[0]), comment=extra[1], **kwargs)
        if via == "obsoleted_by":
            return C.BugUpdate.obsoleted_by(extra[0], **kwargs)
        raise core.HarnessError(via)

    if via == "sanity_check":
        expect["flags"] = [{"name": "sanity-check", "status": {True: "+", False: "-", None: "X"}[extra[0]]}]
        if extra[1] is not None:
            expect["comment"] = {"body": extra[1]}
    elif via == "resolve":
        expect["status"] = "RESOLVED"; expect["resolution"] = extra[0]
        if extra[1] is not None:
            expect["comment"] = {"body": extra[1]}
    elif via == "obsoleted_by":
        expect["status"] = "RESOLVED"; expect["resolution"] = "OBSOLETE"
        expect["see_also"] = {"add": [f"https://bugs.gentoo.org/{extra[0]}"]}

    falsy_given = any(v in ("", 0, [], ["", False], ["", True]) or v == {"set": []} for v in f.values())
    empty_text = [n for n in ("summary", "assigned_to", "whiteboard", "package_list") if f.get(n) == ""]
    has_list = any(n in LIST_FIELDS and not is_empty(v) for n, v in f.items())
    cls = [f"via:{via}"] + (["falsy_but_given"] if falsy_given else []) + (["list_change"] if has_list else [])
    cls += [f"set_to_empty:{n}" for n in empty_text]
    if any(n in LIST_FIELDS and is_empty(v) for n, v in f.items()):
        cls.append("noop_list_change_given")
    if record:
        ctx.case(case, nontrivial=len(expect) >= 3 and (falsy_given or has_list), classes=cls)
    try:
        wire = core.guarded(ctx, case, lambda: make().to_wire(case["ids"]), expected=(ERR.BugzillaUsageError,))
    except ERR.BugzillaUsageError as e:
        ctx.violation("update:refused-valid", case, f"BugzillaUsageError: {e}")
        return
    if core.crashed(wire):
        return
    wire = dict(wire)
    missing = sorted(set(expect) - set(wire))
    extra_keys = sorted(set(wire) - set(expect))
    if missing:
        ctx.violation(f"wire:missing:{missing[0]}", case, f"fields given but absent from the payload: {missing}; payload={wire}")
    if extra_keys:
        ctx.violation(f"wire:unexpected:{extra_keys[0]}", case, f"payload carries fields never set: {extra_keys}; payload={wire}")
    for k in sorted(set(expect) & set(wire)):
        got, want = wire[k], expect[k]
        if k in LIST_FIELDS:
            try:
                universe = ["a", "b", "c", "d", "1", "2", "3", "4"]
                same = all(R.apply_wire(got, L) == R.apply_wire(want, L) for L in ([], universe, universe[::2], universe[1::2]))
            except ValueError as e:
                ctx.violation("wire:malformed-list-change", case, f"{k}: {got}: {e}")
                continue
        elif k == "ids":
            same = [int(x) for x in got] == want
        else:
            same = got == want
        if not same:
            ctx.violation(f"wire:value:{k}", case, f"{k}: payload has {got!r}, expected {want!r}")


# --------------------------------------------------------------------------- runner glue

def plan(tier, seed):
    # Few tasks on purpose: the enumeration costs well under a second of CPU, a worker's start-up (importing pkgcore)
    # costs more, so one wave of workers finishes inside the guard even on a loaded machine.  BugUpdate tasks first.
    if tier == "quick":
        tasks = [{"task": "updates", "examples": 600, "enum": i == 0} for i in range(3)]
        tasks += [{"task": "pairs", "slice": 0, "nslices": 1, "ints": False}]
        tasks += [{"task": "pairs", "slice": 0, "nslices": 1, "ints": True, "sample": 1.0}]
        tasks += [{"task": "triples", "slice": i, "nslices": 2, "sample": 0.2} for i in range(2)]
    else:
        tasks = [{"task": "updates", "examples": 15000, "enum": i == 0} for i in range(8)]
        tasks += [{"task": "pairs", "slice": i, "nslices": 2, "ints": False} for i in range(2)]
        tasks += [{"task": "pairs", "slice": i, "nslices": 2, "ints": True, "sample": 1.0} for i in range(2)]
        tasks += [{"task": "triples", "slice": i, "nslices": 4, "sample": 1.0} for i in range(4)]
    return tasks


def run_task(ctx, task, **kw):
    import random

    if task == "pairs":
        alpha = ["a", "b", "c", "d"]
        ch = changes(alpha)
        inits = subsets(alpha)
        sample = kw.get("sample", 1.0)
        rnd = random.Random(ctx.seed * 7919 + kw["slice"])  # only selects which slice a quick run visits
        full = sample >= 1.0
        for i, c1 in enumerate(ch):
            if i % kw["nslices"] != kw["slice"]:
                continue
            if ctx.out_of_time():
                full = False
                break
            for c2 in ch:
                if sample < 1.0 and rnd.random() >= sample:
                    continue
                check_seq(ctx, [c1, c2], inits, ints=kw["ints"])
        ctx.note("exhaustive_pairs_str" if not kw["ints"] else "exhaustive_pairs_int", bool(full))
        ctx.note("changes_over_abcd", len(ch))
    elif task == "triples":
        alpha = ["a", "b", "c"]
        ch = changes(alpha)
        inits = subsets(alpha)
        sample = kw["sample"]
        rnd = random.Random(ctx.seed * 104729 + kw["slice"])
        full = sample >= 1.0
        for i, c1 in enumerate(ch):
            if i % kw["nslices"] != kw["slice"]:
                continue
            if ctx.out_of_time():
                full = False
                break
            for c2 in ch:
                for c3 in ch:
                    if sample < 1.0 and rnd.random() >= sample:
                        continue
                    check_seq(ctx, [c1, c2, c3], inits, nesting="left")
                    check_seq(ctx, [c1, c2, c3], inits, nesting="right")
        ctx.note("exhaustive_triples", bool(full))
    elif task == "updates":
        if kw.get("enum"):
            for c in enumerated_updates():
                check_update(ctx, c)
            ctx.note("enumerated_single_field_updates", True)
        core.hyp_run(ctx, update_case(), lambda c: check_update(ctx, c), kw["examples"], chunk=500)
    else:
        raise core.HarnessError(f"unknown task {task}")


def replay(ctx, case):
    if case["kind"] == "seq":
        check_seq(ctx, case["changes"], [case["init"]], nesting=case.get("nesting", "left"), ints=case.get("ints", False))
    elif case["kind"] == "update":
        check_update(ctx, case)
    else:
        raise core.HarnessError(f"unknown case kind {case.get('kind')}")
