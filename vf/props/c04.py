"""C04 An atom matches a package exactly as PMS dependency semantics say.

Generated: (atom, package) pairs.  The atom is built from *fields* (vf.ref.atom_match.atom_str), the
package is a pkgcore.test.misc.FakePkg (EAPI 8, so IUSE defaults are stripped) carrying
category/package/fullver/slot/subslot/repo.repo_id/use/iuse.  Four bounded-exhaustive families (`use` and
`constraints` are complete in both tiers and scheduled first; `versions` and `conditional` use a smaller pool in
the quick tier) plus hypothesis pairs that mix all parts:

  versions     every op (7) x atom version pool x package version pool (same key + a few foreign keys)
  constraints  slot / sub-slot / slot operator / repository / blocker prefix x package slot/subslot/repo
  names        every atom key x every package key over pools of near-miss categories / names (letter case only, one
               character, prefix / suffix / hyphenated extension): match iff both are identical
  use          every non-empty USE-dep list over flags f,g,h (each flag absent or [-]flag[(+)|(-)])
               x every package state per flag (not in IUSE / off / on), IUSE spelled with +/- defaults
  conditional  the 2-style forms f? !f? f= !f= (with defaults) resolved with evaluate_conditionals()
               against a parent USE set, then matched
  hyp          random atoms against random packages (all parts at once, longer versions, blockers)

Oracle: vf.ref.atom_match.atom_matches (PMS 8.3; versions via vf.ref.pms_version, `=V*` via its
glob_holds component-boundary rule; `~` ignores the revision; USE deps read IUSE/USE with (+)/(-)
defaults for flags missing from IUSE; a blocker matches what its non-blocking form matches).
A disagreement is attributed to one part by re-asking both sides with single-part atoms; that part
(plus operator / glob boundary kind / minimal USE-dep shape) is the bucket key.

Dropped from DESIGN.md: matching against bare CPV objects (no slot/use attributes) and direct
`match()` of an unevaluated transitive_use_atom (its Conditional payload is only meaningful inside a
DepSet); packages keep `use <= iuse` (the DESIGN invariant), so "flag in USE but not in IUSE" is not asked.
"""
import itertools

from hypothesis import strategies as st

from .. import core
from ..gen import versions as V
from ..ref import atom_match as M
from ..ref import pms_version as R

ID = "C04"
TITLE = "An atom matches a package exactly as PMS dependency semantics say"
LEVEL = "exploration"
TECHNIQUE = "differential vs. independent PMS matching reference; bounded-exhaustive per part + hypothesis mixed pairs"
DESIGN_REF = "DESIGN.md §3 C04"
LEVEL_TEXT = (
    "Generated-input search: four bounded universes (operator x version pools; slot/sub-slot/repo/blocker; "
    "USE-dep lists x IUSE/USE states; conditional USE forms x parent USE) enumerated completely, plus random "
    "atoms against random packages; atom.match(pkg) compared with a PMS reference matcher."
)
LEVEL_NOTE = (
    "Trusted: vf/ref/atom_match.py and vf/ref/pms_version.py (PMS 8.3 / 3.x transcriptions), FakePkg as the "
    "package model. No proof of absence outside the universes."
)
RULE = (
    "pairs (atom fields, package fields); non-trivial = (names family) the keys are identical or near misses (case-only, "
    "one character, prefix) in one half, or the package shares the atom's key and the atom has a "
    "version operator other than plain '=' (=*, ~, <, <=, >=, >) or a USE dep or a slot/sub-slot/repo "
    "constraint; distinct = distinct (atom string, package description)"
)
ASSUMPTIONS = [
    "vf/ref/atom_match.py is a faithful reading of PMS 8.3 and of the C04 statement",
    "a USE dep without a (+)/(-) default reads the flag from the package's USE alone (DESIGN.md C04)",
    "`=V*` follows the component-boundary rule of vf.ref.pms_version.glob_holds (textual components)",
    "packages are modelled by pkgcore.test.misc.FakePkg with EAPI 8 and use <= iuse",
]
BUDGET = {"quick": 50, "thorough": 900}

OPS = ("<", "<=", "=", "~", ">=", ">", "=*")

# atom/package version pool: closed under "+1 digit", ".0", "_p1", letters, "-rN"
VERS = ["0", "1", "10", "1.0", "1.1", "1.10", "1.01", "1.0.1", "1a", "1b", "1_p", "1_p1", "1_p10", "1_pre",
        "1_pre1", "1_alpha", "1.1_p1", "2", "11", "1.0_rc1"]
REVS = [None, "0", "1", "10", "2"]
# quick tier: the part of the pool that carries every boundary / suffix / revision shape once
VERS_QUICK = ["1", "10", "1.0", "1.1", "1.10", "1.01", "1a", "1_p", "1_p1", "1_pre", "2", "1.0_rc1"]
REVS_QUICK = [None, "0", "1", "10"]
FLAGS = ("f", "g", "h")


def _imports():
    from pkgcore.ebuild import atom
    from pkgcore.test import misc

    return atom, misc


def preload():
    """Import pkgcore in the parent (called from plan()) so that forked workers inherit the loaded modules
    (saves ~3 s of import per task).  pkgcore.ebuild.processor installs SIGTERM/SIGINT handlers that raise; they
    must not leak into pool workers (a worker that gets SIGTERM while still in its fork bootstrap would swallow
    the exception and never exit), so the handlers found before the import are put back."""
    import signal

    saved = {sig: signal.getsignal(sig) for sig in (signal.SIGINT, signal.SIGTERM)}
    _imports()
    for sig, h in saved.items():
        signal.signal(sig, h)


class Objs:
    def __init__(self):
        self.atom_mod, self.misc = _imports()
        self._pk = {}
        self._repos = {}

    def atom(self, s):
        return self.atom_mod.atom(s)

    def repo(self, rid):
        r = self._repos.get(rid)
        if r is None:
            r = self._repos[rid] = self.misc.FakeRepo(repo_id=rid or "")
        return r

    def pkg(self, p):
        k = core.jdump(p)
        o = self._pk.get(k)
        if o is None:
            if len(self._pk) > 20000:
                self._pk.clear()
            o = self._pk[k] = self.misc.FakePkg(
                f"{p['cat']}/{p['pkg']}-{M.fullver(p['ver'], p.get('rev'))}",
                eapi="8",
                slot=p["slot"],
                subslot=p["subslot"],
                iuse=list(p.get("iuse_spelled") or p.get("iuse") or ()),
                use=list(p.get("use") or ()),
                repo=self.repo(p.get("repo")),
            )
        return o


def mkpkg(cat="a", pkg="x", ver="1", rev=None, slot="0", subslot=None, repo="", iuse=(), use=(), iuse_spelled=None):
    d = {"cat": cat, "pkg": pkg, "ver": ver, "rev": rev, "slot": slot,
         "subslot": slot if subslot is None else subslot, "repo": repo, "iuse": sorted(iuse), "use": sorted(use)}
    if iuse_spelled is not None:
        d["iuse_spelled"] = sorted(iuse_spelled)
    return d


def mkatom(cat="a", pkg="x", op="", ver=None, rev=None, slot=None, subslot=None, slotop=None, repo=None, use=(),
           blocks=""):
    return {"blocks": blocks, "op": op, "cat": cat, "pkg": pkg, "ver": ver, "rev": rev, "slot": slot,
            "subslot": subslot, "slotop": slotop, "repo": repo, "use": list(use)}


# ---- classification / buckets -----------------------------------------------------------------

def glob_kind(f, p):
    a, b = M.fullver(f["ver"], f.get("rev")), M.fullver(p["ver"], p.get("rev"))
    if not b.startswith(a):
        return "no-prefix"
    if a == b:
        return "equal"
    last, nxt = a[-1], b[len(a)]
    if last.isdigit() and nxt.isdigit():
        return "digit-continues"
    if last.isalpha() and nxt.isalpha():
        return "letter-continues"
    return "boundary"


def use_kind(tok):
    neg, _flag, default = M.split_use_token(tok)
    return ("-f" if neg else "f") + ("" if default is None else "(d)")


def classify(f, p):
    cl = []
    op = f.get("op", "")
    cl.append("op:" + (op or "none"))
    if op == "=*":
        cl.append("glob:" + glob_kind(f, p))
    if f.get("rev") is not None:
        cl.append("atom_rev")
    if p.get("rev") is not None:
        cl.append("pkg_rev")
    if f.get("slot") is not None:
        cl.append("slot")
    if f.get("subslot") is not None:
        cl.append("subslot")
    if f.get("slotop"):
        cl.append("slotop" + f["slotop"])
    if f.get("repo") is not None:
        cl.append("repo")
    if f.get("blocks"):
        cl.append("blocker" + f["blocks"])
    iuse = set(p.get("iuse", ()))
    for t in f.get("use") or ():
        neg, flag, default = M.split_use_token(t)
        cl.append("use:" + use_kind(t))
        if flag not in iuse:
            cl.append("use:missing" + ("" if default is None else "(+)" if default else "(-)"))
    if len(f.get("use") or ()) > 1:
        cl.append("use:multi")
    return cl


def nontrivial(f, p):
    if (f["cat"], f["pkg"]) != (p["cat"], p["pkg"]):
        return False
    return bool(
        f.get("op", "") not in ("", "=")
        or f.get("use")
        or f.get("slot") is not None
        or f.get("repo") is not None
    )


def pkg_key(p):
    return (f"{p['cat']}/{p['pkg']}-{M.fullver(p['ver'], p.get('rev'))}:{p['slot']}/{p['subslot']}::{p.get('repo')}"
            f" iuse={','.join(p.get('iuse_spelled') or p.get('iuse') or ())} use={','.join(p.get('use') or ())}")


def _impl_match(objs, f, p):
    return bool(objs.atom(M.atom_str(f)).match(objs.pkg(p)))


def _sub_atoms(f):
    base = mkatom(cat=f["cat"], pkg=f["pkg"])
    out = []
    if f.get("op"):
        out.append(("version", dict(base, op=f["op"], ver=f["ver"], rev=f.get("rev"))))
    if f.get("slot") is not None or f.get("slotop"):
        out.append(("slot", dict(base, slot=f.get("slot"), subslot=f.get("subslot"), slotop=f.get("slotop"))))
    if f.get("repo") is not None:
        out.append(("repo", dict(base, repo=f["repo"])))
    if f.get("use"):
        out.append(("use", dict(base, use=list(f["use"]))))
    return out


def _min_use(objs, f, p):
    """smallest sub-list of the USE deps that still disagrees (greedy removal)"""
    toks = list(f["use"])
    changed = True
    while changed and len(toks) > 1:
        changed = False
        for i in range(len(toks)):
            cand = toks[:i] + toks[i + 1:]
            g = dict(f, use=cand)
            if _impl_match(objs, g, p) != M.atom_matches(g, p):
                toks = cand
                changed = True
                break
    return toks


def bucket_for(objs, f, p, got, exp):
    direction = "false-positive" if got and not exp else "false-negative"
    if f.get("blocks"):
        g = dict(f, blocks="")
        if _impl_match(objs, g, p) == M.atom_matches(g, p):
            return f"blocker:{f['blocks']}:{direction}"
        f = g
    if (f["cat"], f["pkg"]) != (p["cat"], p["pkg"]) and got:
        # the reference can only have failed on the key; every single-part atom would repeat the same mismatch
        half, k = ("category", "cat") if f["cat"] != p["cat"] else ("package", "pkg")
        return f"key:{half}:{name_relation(f[k], p[k])}:{direction}"
    parts = []
    for name, g in _sub_atoms(f):
        if _impl_match(objs, g, p) != M.atom_matches(g, p):
            parts.append((name, g))
    if not parts:
        if (f["cat"], f["pkg"]) != (p["cat"], p["pkg"]):
            half, k = ("category", "cat") if f["cat"] != p["cat"] else ("package", "pkg")
            return f"key:{half}:{name_relation(f[k], p[k])}:{direction}"
        return f"combination:{direction}"
    name, g = parts[0]
    if name == "version":
        if g["op"] == "=*":
            return f"version:=*:{glob_kind(g, p)}:{direction}"
        return f"version:{g['op']}:{direction}"
    if name == "use":
        toks = _min_use(objs, g, p)
        iuse = set(p.get("iuse", ()))
        shape = ",".join(sorted(
            use_kind(t) + ("!iuse" if (M.split_use_token(t)[2] is not None and M.split_use_token(t)[1] not in iuse) else "")
            for t in toks))
        return f"use:{shape}:{direction}"
    return f"{name}:{direction}"


def check(ctx, objs, f, p, extra_classes=(), force_nontrivial=False):
    case = {"atom": M.atom_str(f), "fields": f, "pkg": p}
    exp = M.atom_matches(f, p)
    cl = classify(f, p) + list(extra_classes) + ["expect:" + ("match" if exp else "nomatch")]
    ctx.case(case, nontrivial=force_nontrivial or nontrivial(f, p), classes=cl, key=case["atom"] + " | " + pkg_key(p))

    def body():
        got = _impl_match(objs, f, p)
        if got != exp:
            why = M.why_not(f, p)
            ctx.violation(
                bucket_for(objs, f, p, got, exp), case,
                f"atom({case['atom']!r}).match({pkg_key(p)}) = {got}, PMS reference = {exp}"
                + (f" (fails on {why})" if why else ""),
            )

    core.guarded(ctx, case, body)


# ---- conditional USE deps ----------------------------------------------------------------------

def check_conditional(ctx, objs, f, tokens, parent_use, p):
    """`f` without use; `tokens` may contain f? !f? f= !f= forms; parent_use = USE of the package that
    carries the dependency.  evaluate_conditionals() must produce an atom that matches p exactly when the
    PMS-resolved plain tokens hold."""
    resolved = M.resolve_conditional_use(tokens, set(parent_use))
    g = dict(f, use=resolved)
    s = M.atom_str(dict(f, use=list(tokens)))
    case = {"atom": s, "fields": dict(f, use=list(tokens)), "parent_use": sorted(parent_use), "pkg": p}
    exp = M.atom_matches(g, p)
    cl = classify(g, p) + ["conditional"] + ["cond:" + ("!" if t[0] == "!" else "") + t[-1] for t in tokens if t[-1] in "?="]
    ctx.case(case, nontrivial=nontrivial(dict(f, use=list(tokens)), p), classes=cl,
             key=s + " @" + ",".join(sorted(parent_use)) + " | " + pkg_key(p))

    def body():
        a = objs.atom(s)
        seq = []
        a.evaluate_conditionals(None, seq, frozenset(parent_use))
        if len(seq) != 1:
            ctx.violation("conditional:arity", case, f"evaluate_conditionals produced {len(seq)} atoms")
            return
        got = bool(seq[0].match(objs.pkg(p)))
        if got != exp:
            # is it the resolution or the matching of the resolved atom?
            plain_ok = _impl_match(objs, g, p) == exp
            # name only the conditional forms whose resolution differs from PMS (root cause, not the whole list)
            diff = set(getattr(seq[0], "use", None) or ()) ^ set(resolved)
            wrong = {M.split_use_token(t)[1] for t in diff}
            forms = ",".join(sorted({("!" if t[0] == "!" else "") + "f" + ("(d)" if t[:-1].endswith(")") else "") + t[-1]
                                     for t in tokens if t[-1] in "?="
                                     and (not wrong or t.strip("!?=").replace("(+)", "").replace("(-)", "") in wrong)}))
            b = f"conditional:resolve:{forms}" if plain_ok else bucket_for(objs, g, p, got, exp)
            ctx.violation(b, case, f"{s} with parent USE {sorted(parent_use)} -> {seq[0]}; match={got}, PMS={exp} "
                                   f"(resolved deps {resolved})")

    core.guarded(ctx, case, body)


# ---- universes ---------------------------------------------------------------------------------

def version_pool(small=False):
    if small:
        return [(v, r) for v in VERS_QUICK for r in REVS_QUICK]
    return [(v, r) for v in VERS for r in REVS]


def use_lists():
    """every non-empty list over FLAGS where each flag is absent or [-]flag[(+)|(-)]"""
    per = []
    for fl in FLAGS:
        per.append([None] + [n + fl + d for n in ("", "-") for d in ("", "(+)", "(-)")])
    for combo in itertools.product(*per):
        toks = [t for t in combo if t is not None]
        if toks:
            yield toks


def pkg_use_states():
    """per flag: not in IUSE / in IUSE and off / in IUSE and on"""
    for combo in itertools.product((0, 1, 2), repeat=len(FLAGS)):
        iuse = [fl for fl, s in zip(FLAGS, combo) if s]
        use = [fl for fl, s in zip(FLAGS, combo) if s == 2]
        yield iuse, use


def spelled_iuse(iuse, i):
    """IUSE as written in ebuilds: some flags carry a +/- default prefix (must be ignored by matching)"""
    out = []
    for j, fl in enumerate(iuse):
        out.append(("", "+", "-")[(i + j) % 3] + fl)
    return out


# near-miss names: differing only in letter case, by one character, by a prefix / suffix / hyphenated extension
CAT_POOL = ["a", "A", "aa", "ab", "a-b", "b", "dev-libs", "dev-Libs", "dev-lib"]
PKG_POOL = ["x", "X", "xx", "xy", "x-y", "y", "foo", "Foo", "FOO", "fo", "fooo", "fop", "foo-bar", "foobar", "foo-Bar",
            "libx11", "libX11", "pyyaml", "PyYAML"]


def name_relation(a, b):
    if a == b:
        return "same"
    if a.lower() == b.lower():
        return "case-only"
    if a.startswith(b) or b.startswith(a):
        return "prefix"
    if len(a) == len(b) and sum(x != y for x, y in zip(a, b)) == 1:
        return "one-char"
    return "other"


def task_names(ctx, objs, slice_, nslices):
    """every atom key x every package key of the pools: match iff category and name are both identical"""
    keys = [(c, n) for c in CAT_POOL for n in PKG_POOL]
    shapes = [dict(op="", ver=None), dict(op="=", ver="1"), dict(op="", ver=None, blocks="!"),
              dict(op=">=", ver="1", blocks="!!", slot="0")]
    for i, (ac, an) in enumerate(keys):
        if i % nslices != slice_:
            continue
        if ctx.out_of_time():
            ctx.note("exhaustive_names", False)
            return
        f = mkatom(cat=ac, pkg=an, **shapes[i % len(shapes)])
        for (pc, pn) in keys:
            rc, rn = name_relation(ac, pc), name_relation(an, pn)
            near = (rc == "same" and rn != "other") or (rn == "same" and rc != "other")
            check(ctx, objs, f, mkpkg(cat=pc, pkg=pn, ver="1"), extra_classes=("names", f"names:cat-{rc}", f"names:pkg-{rn}"),
                  force_nontrivial=near)
    ctx.note("exhaustive_names", True)
    ctx.note("name_keys", len(keys))


def task_versions(ctx, objs, slice_, nslices, small=False):
    pool = version_pool(small)
    atoms = []
    for op in OPS:
        for (v, r) in pool:
            if op == "~" and r is not None:
                continue
            atoms.append(mkatom(op=op, ver=v, rev=r))
    atoms.append(mkatom())
    n = 0
    for i, f in enumerate(atoms):
        if i % nslices != slice_:
            continue
        if ctx.out_of_time():
            ctx.note("exhaustive_versions", False)
            return
        for (v, r) in pool:
            check(ctx, objs, f, mkpkg(ver=v, rev=r))
            n += 1
        # foreign keys: same version, other category / package name (prefix-related names)
        for cat, pk in (("a", "xx"), ("aa", "x"), ("b", "x"), ("a", "x-y")):
            check(ctx, objs, f, mkpkg(cat=cat, pkg=pk, ver=f["ver"] or "1", rev=f.get("rev")))
    ctx.note("exhaustive_versions", True)
    ctx.note("version_pool_size", len(pool))


SLOTS_A = [None, "0", "1", "10", "1.2"]
SUBS_A = [None, "0", "1", "2", "10"]
REPOS_A = [None, "r1", "r2", "r10"]
SLOTS_P = ["0", "1", "10", "1.2"]
SUBS_P = [None, "0", "2", "10"]
REPOS_P = ["", "r1", "r2", "r10"]


def task_constraints(ctx, objs, slice_, nslices):
    atoms = []
    n = 0
    for (op, ver), slot, repo in itertools.product([("", None), ("=*", "1"), (">=", "2")], SLOTS_A, REPOS_A):
        shapes = []
        if slot is None:
            shapes += [(None, sop) for sop in (None, "=", "*")]
        else:
            shapes += [(sub, sop) for sub in SUBS_A for sop in (None, "=")]
        for sub, sop in shapes:
            n += 1
            # the blocker prefix cycles over the shapes (every shape x prefix is reached through the three ops)
            atoms.append(mkatom(op=op, ver=ver, slot=slot, subslot=sub, slotop=sop, repo=repo,
                                blocks=("", "!", "!!")[n % 3]))
    pkgs = [mkpkg(ver="1", slot=s, subslot=ss, repo=r) for s, ss, r in itertools.product(SLOTS_P, SUBS_P, REPOS_P)]
    pkgs.append(mkpkg(ver="2", slot="1", subslot="2", repo="r1"))
    pkgs.append(mkpkg(pkg="y", ver="1", slot="0", repo="r1"))
    for i, f in enumerate(atoms):
        if i % nslices != slice_:
            continue
        if ctx.out_of_time():
            ctx.note("exhaustive_constraints", False)
            return
        for p in pkgs:
            check(ctx, objs, f, p)
    ctx.note("exhaustive_constraints", True)


def task_use(ctx, objs, slice_, nslices):
    states = list(pkg_use_states())
    for i, toks in enumerate(use_lists()):
        if i % nslices != slice_:
            continue
        if ctx.out_of_time():
            ctx.note("exhaustive_use", False)
            return
        variants = [mkatom(use=toks)]
        if i % 5 == 0:
            variants.append(mkatom(op="=*", ver="1", slot="0", use=list(reversed(toks)), blocks="!"))
        for f in variants:
            for j, (iuse, use) in enumerate(states):
                check(ctx, objs, f, mkpkg(iuse=iuse, use=use, iuse_spelled=spelled_iuse(iuse, i + j)))
    ctx.note("exhaustive_use", True)


COND_FORMS = ["{}?", "!{}?", "{}=", "!{}=", "{}(+)?", "!{}(-)?", "{}(-)=", "!{}(+)="]


def task_conditional(ctx, objs, slice_, nslices, small=False):
    states = list(pkg_use_states())
    per = [[None] + [c.format(fl) for c in COND_FORMS] for fl in FLAGS[:2]]
    plain3 = [None, "-h(+)"] if small else [None, "h", "-h", "-h(+)"]
    n = 0
    for combo in itertools.product(per[0], per[1], plain3):
        toks = [t for t in combo if t is not None]
        if not any(t[-1] in "?=" for t in toks):
            continue
        n += 1
        if n % nslices != slice_:
            continue
        if ctx.out_of_time():
            ctx.note("exhaustive_conditional", False)
            return
        for parent in ((), ("f",), ("g",), ("f", "g")):
            for iuse, use in states:
                check_conditional(ctx, objs, mkatom(), toks, parent, mkpkg(iuse=iuse, use=use))
    ctx.note("exhaustive_conditional", True)


# ---- hypothesis --------------------------------------------------------------------------------

_names = st.sampled_from(["x", "y", "x-y", "x1", "xx", "X", "xy", "foo", "Foo", "foo-bar", "foobar"])
_cats = st.sampled_from(["a", "aa", "b", "a-b", "A", "ab"])
_slot = st.sampled_from(["0", "1", "10", "1.2", "2", "a", "3.11"])
_opt_slot = st.one_of(st.none(), _slot)
_repo = st.sampled_from(["r1", "r2", "r10", "gentoo"])
_prepo = st.one_of(st.just(""), _repo)
_flag = st.sampled_from(["f", "g", "h", "k", "f-g", "f_1"])
_iuse = st.lists(st.tuples(_flag, st.sampled_from(["", "", "+", "-"]), st.booleans()), unique_by=lambda t: t[0], max_size=5)
_use_token = st.tuples(st.sampled_from(["", "-"]), _flag, st.sampled_from(["", "", "(+)", "(-)"])).map("".join)
_use_list = st.lists(_use_token, max_size=4, unique_by=lambda t: M.split_use_token(t)[1])
_op = st.sampled_from(OPS + ("", "=*", "~"))
_blocks = st.sampled_from(["", "", "", "!", "!!"])
_i = {n: st.integers(0, n) for n in (1, 2, 3, 5, 9)}
_sop = st.sampled_from([None, None, "="])
_sop2 = st.sampled_from(["=", "*"])
_version = V.version()
_unit = st.floats(0, 1, exclude_max=True)


@st.composite
def pair(draw):
    cat, pk = draw(_cats), draw(_names)
    pv = draw(_version)
    pslot = draw(_slot)
    psub = draw(_opt_slot)
    prepo = draw(_prepo)
    iu = draw(_iuse)
    iuse = [x[0] for x in iu]
    use = [x[0] for x in iu if x[2]]
    spelled = [x[1] + x[0] for x in iu]
    p = mkpkg(cat=cat, pkg=pk, ver=pv[0], rev=pv[1], slot=pslot, subslot=psub, repo=prepo, iuse=iuse, use=use,
              iuse_spelled=spelled)
    # the atom: mostly aimed at the package (same key, related version, same/different slot ...)
    acat, apk = (cat, pk) if draw(_i[9]) else (draw(_cats), draw(_names))
    op = draw(_op)
    ver = rev = None
    if op:
        how = draw(_i[5])
        if op == "=*" and how >= 2:
            # a textual prefix of the package's fullver, cut anywhere a valid version ends
            full = M.fullver(*pv)
            cuts = [i for i in range(1, len(full) + 1) if _valid_fullver(full[:i])]
            ver, rev = R.split_fullver(full[:cuts[int(draw(_unit) * len(cuts))]])
        elif how == 0:
            ver, rev = pv
        elif how == 1:
            ver, rev = draw(_version)
        else:
            ver, rev = draw(V.mutated(pv))
        if op == "~":
            rev = None
    slot = sub = sop = None
    k = draw(_i[5])
    if k >= 3:
        slot = pslot if draw(_i[3]) else draw(_slot)
        if draw(_i[1]):
            sub = p["subslot"] if draw(_i[2]) else draw(_slot)
        sop = draw(_sop)
    elif k == 2:
        sop = draw(_sop2)
    repo = None
    if draw(_i[3]) == 0:
        repo = prepo if (prepo and draw(_i[1])) else draw(_repo)
    f = mkatom(cat=acat, pkg=apk, op=op, ver=ver, rev=rev, slot=slot, subslot=sub, slotop=sop, repo=repo,
               use=draw(_use_list), blocks=draw(_blocks))
    return f, p


def _valid_fullver(s):
    v, r = R.split_fullver(s)
    return R.valid(v) and not s.endswith("-r")


def plan(tier, seed):
    """Order matters when the wall-clock guard stops generation on a loaded machine: the small exhaustive
    families (USE-dep lists x IUSE/USE states first) are scheduled before the larger ones and before hypothesis,
    and the quick tier is sized so that all of it fits the budget even with 4 jobs."""
    preload()
    quick = tier == "quick"
    tasks = []
    for name, n in (("use", 2), ("names", 2), ("conditional", 2), ("constraints", 2), ("versions", 2 if quick else 6)):
        for i in range(n):
            t = {"task": name, "slice": i, "nslices": n}
            if name in ("versions", "conditional"):
                t["small"] = quick
            tasks.append(t)
    if quick:
        for i in range(4):
            tasks.append({"task": "hyp", "examples": 500})
    else:
        for i in range(16):
            tasks.append({"task": "hyp", "examples": 20000})
    return tasks


def run_task(ctx, task, **kw):
    objs = Objs()
    if task == "versions":
        task_versions(ctx, objs, kw["slice"], kw["nslices"], kw.get("small", False))
    elif task == "constraints":
        task_constraints(ctx, objs, kw["slice"], kw["nslices"])
    elif task == "use":
        task_use(ctx, objs, kw["slice"], kw["nslices"])
    elif task == "names":
        task_names(ctx, objs, kw["slice"], kw["nslices"])
    elif task == "conditional":
        task_conditional(ctx, objs, kw["slice"], kw["nslices"], kw.get("small", False))
    elif task == "hyp":
        def f_pair(fp):
            check(ctx, objs, fp[0], fp[1], extra_classes=("hyp",))
            objs._pk.clear()

        core.hyp_run(ctx, pair(), f_pair, kw["examples"], chunk=1000)
    else:
        raise core.HarnessError(f"unknown task {task}")


def replay(ctx, case):
    objs = Objs()
    if "parent_use" in case:
        f = dict(case["fields"])
        toks = f.pop("use")
        check_conditional(ctx, objs, dict(f, use=[]), toks, case["parent_use"], case["pkg"])
    else:
        check(ctx, objs, case["fields"], case["pkg"])
