"""C31 Environment handed to the build daemon arrives exactly.

A real bash daemon per worker.  For every generated environment mapping the harness

  1. opens a `process_ebuild nofetch` session (vf.ebd.Session) and `cd`s the phase shell into a
     scratch directory (harness-written chunk, exact byte count, never through send_env),
  2. calls pkgcore's own transfer: `EbuildProcessor.send_env(env)` (inline, "bytes N"),
     `send_env(env, tmpdir=...)` (file) or `_run_depend_like_phase("gen_metadata", pkg, ..., env=env)`
     (the metadata path, with a harness-written ebuild that sources the observer),
  3. observes the daemon's shell with a harness-written, ASCII-only observer chunk that prints, NUL
     separated, for every name: declared?, attribute flags, element count, indices, raw elements; and
     the environment a child process really gets (`/usr/bin/env -0`),
  4. sends `alive` (expects `yep!`) and leaves the session (expects `phases succeeded`).

Oracle (independent of _generate_env_str): every value/element is byte-identical to the UTF-8
encoding of the Python text (the command channel and the transfer file are opened in the locale
encoding; the harness requires that to be UTF-8), a sequence arrives as an indexed array 0..n-1,
a name is exported iff it is not listed in PKGCORE_NONEXPORTED_VARS (attribute flag *and*, for
scalars, presence with the exact bytes in a child's environment), send_env returned True, and the
channel is still synchronised.  Byte accounting: everything pkgcore writes to the command pipe during
the transfer is recorded; the announced count is compared with the number of payload *bytes*.  A
timeout with a correct count and a still-unread pipe is a harness problem (exit 2), everything else
(wrong count, daemon rejected / could not parse the text, daemon died) is the violation.

Dropped from DESIGN.md: reading back through the `gen_ebuild_env` dump (the observer chunk is more
direct and does not depend on the dump/filter code, which C34 covers).

Safety: values are interpreted by a shell when quoting is wrong (that is the defect class hunted
here), so the alphabet cannot spell a command name, command substitutions only ever run `echo`,
the phase shell's cwd is a scratch directory and the daemon's stdin is /dev/null.
"""
from __future__ import annotations

import os
import signal
import time
import types

from hypothesis import strategies as st

from .. import core, ebd

ID = "C31"
TITLE = "Environment handed to the build daemon arrives exactly"
LEVEL = "exploration"
TECHNIQUE = ("real bash daemon; hypothesis-generated environments sent by pkgcore's send_env (inline/file) and the "
             "metadata path; shell state read back by a harness-written observer + child environment; byte accounting "
             "of the command pipe")
DESIGN_REF = "DESIGN.md §3 C31"
LEVEL_TEXT = (
    "Generated-input search against a real daemon: random environment mappings (scalars and sequences whose text "
    "mixes quotes, backslashes, $, backticks, newlines, tabs, control and non-ASCII characters, with and without "
    "PKGCORE_NONEXPORTED_VARS) are transferred by the unmodified pkgcore code over all three paths; the daemon's shell "
    "variables, export flags and a child's environment are compared byte for byte with the input, and the next two "
    "requests must be answered."
)
LEVEL_NOTE = ("Trusted: bash 5.2 itself (observer chunk uses only quoted expansions and printf), /usr/bin/env. "
              "No proof of absence; value length is bounded (<= ~40 tokens).")
RULE = (
    "first deterministic families: sizes (payload just below/above 4 KiB, 64 KiB, 128 KiB, 1 MiB; one huge / many medium "
    "values; inline, file, metadata path) and quoting (single quote paired with every special character / executable payload, each special "
    "alone, multi-line payloads via embedded newline or the non-exported marker, x transports), then hypothesis: "
    "env = 1..5 harness-prefixed names -> str | list/tuple of str, text built from a token alphabet (' \" \\ $ ` newline "
    "tab ! * ; & | < > ( ) { } # ~ space, escapes like \\n \\' \\\\ $'..' $(echo q) `echo q`, control chars, BMP and "
    "astral non-ASCII), optional PKGCORE_NONEXPORTED_VARS subset; transport in inline/file/depend; non-trivial = some "
    "value has a quote and a backslash, or non-ASCII text, or is a sequence with a shell-special character; "
    "distinct = canonical JSON of (transport, env)"
)
ASSUMPTIONS = [
    "the command channel / transfer file encoding (locale) is UTF-8, as in the check process",
    "names carry a harness prefix (VT_/_VT) so they collide with nothing the daemon owns or marks read-only",
    "bash 5.2 `declare -p`, `${!a[@]}`, `printf %s\\0` and /usr/bin/env -0 report shell state truthfully",
    "one phase session per environment (fresh sub-shell), so export flags cannot leak between cases",
    "bytes 0x01/0x7f are not generated inside sequence elements (bash 5.2 mangles them in double-quoted words of "
    "compound array assignments on its own)",
]
BUDGET = {"quick": 50, "thorough": 900}

TIMEOUT = 60  # generous: the machine may be heavily loaded; a hit is classified by byte accounting
SHORT_TIMEOUT = 30  # single-line protocol replies (`yep!`, `phases failed`) once a session is up

SPECIALS = "'\"\\$`\n\t!*;&|<>(){}#~ []?="
# letters chosen so that no concatenation spells an existing command (values may get executed by a
# shell when quoting is broken); n/t/x/0.. are needed for backslash escapes
LETTERS = ["q", "n", "t", "x", "0", "1", "4", "Q", "Z"]
TOKENS = (
    list(SPECIALS)
    + LETTERS
    + ["\\n", "\\t", "\\'", "\\\\", "\\\"", "\\x41", "\\101", "\\u00e9", "\\$", "\\`", "\\\n", "$'", "$\"", "${Q}", "$Q",
       "$(echo q)", "`echo q`", "$((1+1))", "$$", "'\"'\"'", "\\'\\'", "''", "\"\"", " ", "  ", "\r", "\x01", "\x7f", "\x1b",
       "é", "ü", "ß", "ñ", "日本", "€", "\u0301", "\u00a0", "\u2028", "\ufeff", "😀", "𝒳", "\U0010ffff", "café", "naïve",
       "-", ".", "/", ":", "@", "%", "^", "+", ","]
)
QUOTES = "'\""


def _text():
    return st.lists(st.sampled_from(TOKENS), min_size=0, max_size=10).map("".join)


def _simple_text():
    return st.lists(st.sampled_from(LETTERS + ["-", ".", "/", " ", "_"]), min_size=0, max_size=6).map("".join)


# bash <= 5.2 itself doubles/prefixes 0x01 (CTLESC) and 0x7f (CTLNUL) inside double-quoted words of a compound
# array assignment (`a=("x^Ay")` stores x^A^Ay; reproduced with plain bash, no pkgcore involved), so no quoting
# pkgcore could choose inside "..." helps; these two bytes are only generated in scalars.
SEQ_TOKENS = [t for t in TOKENS if t not in ("\x01", "\x7f")]


def _seq_text():
    return st.lists(st.sampled_from(SEQ_TOKENS), min_size=0, max_size=10).map("".join)


def _value():
    t = st.one_of(_text(), _text(), _text(), _simple_text())
    e = st.one_of(_seq_text(), _seq_text(), _seq_text(), _simple_text())
    return st.one_of(t, t, t, st.lists(e, min_size=0, max_size=4))


def _name():
    tail = st.text(alphabet="abXY09_", min_size=0, max_size=4)
    return st.builds(lambda p, s: p + s, st.sampled_from(["VT_", "VT_", "VT_", "_VT", "vt_"]), tail)


@st.composite
def env_case(draw, transports=("inline", "file", "depend")):
    names = draw(st.lists(_name(), min_size=1, max_size=5, unique=True))
    items = []
    for n in names:
        v = draw(_value())
        items.append([n, v, draw(st.sampled_from([True, True, False]))])
    marker = draw(st.sampled_from(["auto", "auto", "absent-if-possible", "extra"]))
    tuple_ = draw(st.booleans())
    return {"transport": draw(st.sampled_from(list(transports))), "items": items, "marker": marker, "tuples": tuple_}


# ---------------------------------------------------------------------------------------------
# daemon handling

class _Tee:
    """records every str pkgcore writes to the command pipe (for byte accounting)"""

    def __init__(self, f):
        self._f = f
        self.rec = None

    def write(self, s):
        if self.rec is not None:
            self.rec.append(s)
        return self._f.write(s)

    def __getattr__(self, k):
        return getattr(self._f, k)


class Daemon:
    def __init__(self, ctx):
        self.ctx = ctx
        self.ebp = None
        self.errpath = os.path.join(ctx.scratch, "daemon.stderr")
        self.cwd = ctx.fresh_dir("cwd")
        self.spawned = 0

    def get(self):
        if self.ebp is None:
            ebd.ensure_generated()
            from pkgcore.ebuild import processor

            nullfd = os.open(os.devnull, os.O_RDWR)
            errfd = os.open(self.errpath, os.O_WRONLY | os.O_CREAT | os.O_TRUNC, 0o600)
            try:
                with ebd.alarm(TIMEOUT, "daemon startup"):
                    self.ebp = processor.EbuildProcessor(userpriv=False, sandbox=False,
                                                         fd_pipes={0: nullfd, 1: nullfd, 2: errfd})
            finally:
                os.close(nullfd)
                os.close(errfd)
            if (self.ebp.ebd_write.encoding or "").lower().replace("-", "") != "utf8":
                raise core.HarnessError(f"command channel encoding is {self.ebp.ebd_write.encoding}, check assumes UTF-8")
            self.ebp.ebd_write = _Tee(self.ebp.ebd_write)
            self.spawned += 1
        return self.ebp

    def stderr_tail(self):
        try:
            with open(self.errpath, "rb") as f:
                return f.read()[-300:].decode("utf8", "replace")
        except OSError:
            return ""

    def kill(self):
        if self.ebp is not None:
            ebd.kill(self.ebp)
            self.ebp = None


def observer_code(names, out, envout):
    """ASCII only; quoted expansions only; independent of IFS; ONE line without any newline, so that the harness
    chunk does not depend on how the daemon reads multi-line payloads (that is pkgcore's business, tested with
    pkgcore's own payloads)"""
    return (
        "{ for __vt_n in " + " ".join(names) + "; do "
        "if ! declare -p \"${__vt_n}\" >/dev/null 2>&1; then printf 'U\\0%s\\0' \"${__vt_n}\"; continue; fi; "
        "declare -n __vt_r=${__vt_n}; "  # ${ref@a}: attribute letters of the target, no fork
        "printf 'V\\0%s\\0-%s\\0%s\\0' \"${__vt_n}\" \"${__vt_r@a}\" \"${#__vt_r[@]}\"; "
        "if [[ ${#__vt_r[@]} -gt 0 ]]; then printf '%s\\0' \"${!__vt_r[@]}\"; printf '%s\\0' \"${__vt_r[@]}\"; fi; "
        "unset -n __vt_r; "
        "done; printf 'E\\0'; } > '" + out + "' 2>&1; "
        + (f"/usr/bin/env -0 > '{envout}' 2>&1; " if envout else "")
        + "unset -v __vt_n; :"
    )


def parse_observation(data: bytes):
    """-> {name: None (undeclared) | (flags, [(index, bytes)...])}"""
    parts = data.split(b"\0")
    res = {}
    i = 0
    while i < len(parts):
        tag = parts[i]
        if tag == b"E":
            return res
        if tag == b"U":
            res[parts[i + 1].decode()] = None
            i += 2
        elif tag == b"V":
            name = parts[i + 1].decode()
            flags = parts[i + 2].decode()
            n = int(parts[i + 3])
            idx = parts[i + 4:i + 4 + n]
            vals = parts[i + 4 + n:i + 4 + 2 * n]
            res[name] = (flags, list(zip([x.decode() for x in idx], vals)))
            i += 4 + 2 * n
        else:
            raise ValueError(f"unparsable observer output at field {i}: {parts[i:i + 3]!r}")
    raise ValueError("observer output lacks the end marker")


# ---------------------------------------------------------------------------------------------
# classification (drives non-trivial rule, coverage classes and root-cause buckets)

def value_features(v):
    f = set()
    elems = v if isinstance(v, list) else [v]
    if isinstance(v, list):
        f.add("seq")
        if not v:
            f.add("seq_empty")
        if any(any(c in SPECIALS for c in e) for e in v):
            f.add("seq_special")
    for e in elems:
        if any(ord(c) > 127 for c in e):
            f.add("nonascii")
        if any(ord(c) > 0xFFFF for c in e):
            f.add("astral")
        if "\\" in e and any(q in e for q in QUOTES):
            f.add("quote_and_backslash")
        if "'" in e and "\\" in e:
            f.add("squote_and_backslash")
        if "\n" in e:
            f.add("newline")
        if any(c in e for c in "\x01\x7f\x1b\r"):
            f.add("control")
        if e == "":
            f.add("empty")
        if e.isalnum():
            f.add("alnum")
        if "$(" in e or "`" in e:
            f.add("cmdsubst")
    return f


def nontrivial_value(f):
    return "quote_and_backslash" in f or "nonascii" in f or "seq_special" in f


def root_cause(v):
    """bucket component naming the quoting branch/feature the value exercises"""
    if isinstance(v, list):
        for ch, nm in (("\\", "backslash"), ('"', "dquote"), ("$", "dollar"), ("`", "backtick")):
            if any(ch in e for e in v):
                return f"seq-element:{nm}"
        return "seq-element:plain"
    if "'" in v:
        return "scalar-with-squote:" + ("backslash" if "\\" in v else "no-backslash")
    if v.isalnum():
        return "scalar-alnum"
    return "scalar-no-squote"


# ---------------------------------------------------------------------------------------------
# the oracle

def build_env(case):
    env = {}
    non = []
    conv = tuple if case.get("tuples") else list
    for name, v, exported in case["items"]:
        env[name] = conv(v) if isinstance(v, list) else v
        if not exported:
            non.append(name)
    marker = case.get("marker", "auto")
    if non or marker != "absent-if-possible":
        extra = ["VT_not_in_env", "PF"] if marker == "extra" else []
        env["PKGCORE_NONEXPORTED_VARS"] = " ".join(sorted(non + extra))
    return env


def _fake_pkg(ebuild_path):
    from pkgcore.ebuild import eapi

    return types.SimpleNamespace(category="cat", PF="pkg-1", P="pkg-1", PN="pkg", PV="1", PR="r0", PVR="1",
                                 ebuild=types.SimpleNamespace(path=ebuild_path), eapi=eapi.get_eapi("8"))


_PLAIN = "Lorem ipsum dolor-sit_amet, consectetur/adipiscing.elit 0123456789 "
_MIXED = "it's a \"mixed\" \\ value: $Q `q` caf\u00e9 {x} (y)\n\ttab; "


def expand_items(case):
    """items of a case; `sized` cases are stored compactly ({"target": bytes, "shape": one|many, "text": plain|mixed})
    and expanded deterministically here: one huge value, or many medium values (1000 bytes; 16 KiB from 512 KiB up),
    so that the total payload is about `target` bytes"""
    if "sized" not in case:
        return case["items"]
    sz = case["sized"]
    pat = _PLAIN if sz.get("text", "plain") == "plain" else _MIXED
    target = sz["target"]

    def text(n, salt):
        body = (f"<{salt}>" + pat) * (n // len(pat) + 2)
        out = body[:n]
        while len(out.encode("utf8")) > n:  # non-ASCII in the mixed pattern: trim to the byte size
            out = out[:-1]
        return out

    # a single string > 128 KiB (MAX_ARG_STRLEN) or > ~2 MiB in total cannot be handed to any child process by the
    # kernel, whoever exports it; such values are only transferred as non-exported shell variables
    if sz["shape"] == "one":
        return [["VT_big", text(target, 0), target < 100000]]
    step = 1000 if target < 512 * 1024 else 16384
    per = step + 16  # NAME='...' plus separator
    n = max(2, target // per)
    return [[f"VT_m{i}", text(step, i), i % 5 == 0] for i in range(n)]


def _short(x, n=160):
    r = repr(x)
    return r if len(r) <= n else f"{r[:n // 2]}...<{len(r)} chars>...{r[-n // 2:]}"


def check_env(ctx, dm: Daemon, case, record=True):
    """transfer one environment and compare.  Returns set of buckets reported for this case."""
    stored = case  # what is recorded / saved (compact for sized cases)
    items = expand_items(case)
    case = dict(case, items=items)
    sized = "sized" in case
    transport = case["transport"]
    names = [n for n, _, _ in items]
    feats = {n: value_features(v) for n, v, _ in items}
    allf = set().union(*feats.values())
    if record:
        classes = sorted({f"t:{transport}", f"marker:{case.get('marker')}"} | {f"v:{x}" for x in allf}
                         | ({"has_nonexported"} if any(not e for _, _, e in items) else set()))
        if sized:
            classes += [f"size:{_size_class(case['sized']['target'])}", f"shape:{case['sized']['shape']}"]
        ctx.case(stored, nontrivial=sized or any(nontrivial_value(f) for f in feats.values()), classes=classes)
    reported = set()

    def viol(bucket, msg):
        reported.add(bucket)
        ctx.violation(bucket, stored, msg if len(msg) < 1500 else msg[:700] + " ...<cut>... " + msg[-500:])

    env = build_env(case)
    ebp = dm.get()
    tee = ebp.ebd_write
    out = os.path.join(dm.cwd, "obs.out")
    envout = os.path.join(dm.cwd, "env.out")
    for p in (out, envout):
        try:
            os.unlink(p)
        except OSError:
            pass
    culprit = _first_risky(items)

    def symptom(kind, detail):
        """the transfer as a whole failed: attribute to the riskiest value (root cause class)"""
        viol(f"quoting:{culprit}", f"[{transport}] {kind}: {detail}; daemon stderr: {dm.stderr_tail()!r}")

    if transport == "depend":
        return _check_depend(ctx, dm, case, env, names, out, viol, symptom, reported)

    for attempt in (0, 1):
        sess = ebd.Session(ebp, timeout=TIMEOUT)
        try:
            sess.__enter__()
            if not sess.run_code(f"cd '{dm.cwd}' || exit 9"):
                raise core.HarnessError("daemon refused the harness cd chunk")
            break
        except ebd.EbdHang as e:
            dm.kill()
            raise core.HarnessError(f"fresh session did not answer: {e}") from None
        except (RuntimeError, OSError) as e:  # broken pipe: the daemon is gone before this case did anything
            dm.kill()
            if attempt:
                raise core.HarnessError(f"cannot start a session on a fresh daemon: {e}") from None
            ctx.count("daemon_found_dead_at_case_start")
            ebp = dm.get()
            tee = ebp.ebd_write

    tee.rec = []
    ok = None
    hang = None
    try:
        try:
            with _AccountingAlarm(tee, "start_receiving_env bytes ", "send_env reply"):
                ok = core.guarded(ctx, case, lambda: ebp.send_env(env, tmpdir=dm.cwd if transport == "file" else None),
                                  expected=(ebd.EbdHang, RuntimeError, OSError) + _PROTOCOL_ERRORS())
        except ebd.EbdHang as e:
            hang = e
        except (RuntimeError, OSError) + _PROTOCOL_ERRORS() as e:
            # pkgcore relaying the daemon's `dying ...` notice, or EPIPE because the daemon died mid-transfer
            ok = f"{type(e).__name__}: {str(e)[:200]}"
    finally:
        written = "".join(tee.rec)
        tee.rec = None
    if core.crashed(ok):
        reported.add("crash")
        dm.kill()
        return reported

    # ---- byte accounting (inline): announced count vs bytes really sent
    count_ok = True
    if transport == "inline":
        acc = _announced_vs_sent(written, "start_receiving_env bytes ")
        if acc is None:
            viol("inline:bad-header", f"send_env wrote {written[:80]!r}")
            dm.kill()
            return reported
        announced, actual = acc
        payload = written.partition("\n")[2]
        if announced != actual:
            count_ok = False
            viol("byte-count:inline" + (":nonascii" if not payload.isascii() else ""),
                 f"announced {announced} but sent {actual} payload bytes ({len(payload)} characters); "
                 f"send_env -> {ok!r}{' (then no reply)' if hang else ''}")
    if not count_ok:
        # nothing after a wrong count can be trusted (left-over bytes become the next "command")
        dm.kill()
        return reported
    # ---- pkgcore's own exchange, byte count right (or file transport).  No harness-written chunk has been sent since
    # the (acknowledged) `cd`, so a failure, a hang or a dead daemon here is exactly what the statement forbids.
    if transport == "file":
        try:
            with open(os.path.join(dm.cwd, "ebd-env-transfer"), encoding="utf8") as f:
                payload = f.read()
        except OSError:
            payload = ""
    pclass = ("multiline-payload" if "\n" in payload else culprit) + _size_suffix(len(payload.encode("utf8")))

    def transfer_failed(kind, detail):
        risky = (culprit.startswith("seq-element") and not culprit.endswith(":plain")) or culprit.startswith("scalar-with")
        small = len(payload.encode("utf8")) < 4096
        bucket = (f"quoting:{culprit}" if risky and small and kind == "rejected"
                  else f"transfer-failed:{transport}:{pclass}")
        viol(bucket, f"[{transport}] {kind}: {detail}; payload {payload[:120]!r}; daemon stderr: {dm.stderr_tail()!r}")

    if hang is not None:
        transfer_failed("hang", f"send_env got no reply although the announced byte count was right ({hang})")
        dm.kill()
        return reported
    if ok is not True:
        transfer_failed("rejected", f"send_env returned {ok!r} for an in-domain environment")
        dm.kill()  # left-over bytes of a partly read payload may still be in the pipe: never reuse this daemon
        return reported
    # "the daemon answers the next request": pkgcore-protocol `alive`, still before any further harness chunk
    try:
        with ebd.alarm(SHORT_TIMEOUT, "alive reply right after the transfer"):
            ebp.write("alive")
            answered = ebp.expect("yep!", flush=True)
        why = "answered with something else than `yep!`"
    except (ebd.EbdHang, RuntimeError, OSError) + _PROTOCOL_ERRORS() as e:
        answered, why = False, f"{type(e).__name__}: {str(e)[:300]}"
    if not answered:
        viol(f"daemon-unresponsive-after-transfer:{transport}:{pclass}",
             f"[{transport}] send_env returned True but the next request (`alive`) was not answered: {why}; "
             f"payload {payload[:120]!r}; daemon stderr: {dm.stderr_tail()!r}")
        dm.kill()
        return reported

    # ---- observe (harness chunk; pkgcore's part completed normally and the channel was in sync: trouble here is ours)
    try:
        # sized cases: no child process (execve refuses strings > 128 KiB / environments > ARG_MAX)
        if not sess.run_code(observer_code(names, out, None if sized else envout)):
            raise core.HarnessError("observer chunk not acknowledged although the channel was in sync")
        with open(out, "rb") as f:
            obs = parse_observation(f.read())
        child = None
        if not sized:
            with open(envout, "rb") as f:
                child = _parse_env0(f.read())
    except (ebd.EbdHang, ValueError, OSError) as e:
        dm.kill()
        raise core.HarnessError(f"could not observe the shell after a completed transfer: {e} "
                                f"(case {core.jdump(stored)[:300]}; daemon stderr {dm.stderr_tail()!r})") from None
    compare(case, obs, child, viol, transport)

    # ---- channel still synchronised: session end and main loop (pkgcore protocol requests)
    try:
        if not sess.close():
            symptom("desync-after-transfer", "session end not answered with `phases succeeded`")
            dm.kill()
        elif not _main_loop_alive(ebp):
            symptom("desync-after-transfer", "daemon main loop does not answer `alive` after the session")
            dm.kill()
    except (ebd.EbdHang, RuntimeError, OSError) + _PROTOCOL_ERRORS() as e:
        symptom("desync-after-transfer", f"{type(e).__name__}: {str(e)[:300]}")
        dm.kill()
    return reported


def _PROTOCOL_ERRORS():
    """pkgcore's own exceptions for a daemon that refuses, garbles or dies (`dying`/`SIGTERM` notices)"""
    from pkgcore.ebuild import processor

    return (processor.ProcessorError, processor.ProcessingInterruption)


def _announced_vs_sent(written, prefix):
    """(announced, payload bytes) of the last `<prefix>N\\n<payload>` pkgcore wrote, or None if there is no such header"""
    pos = written.rfind(prefix)
    if pos < 0:
        return None
    head, sep, payload = written[pos:].partition("\n")
    num = head[len(prefix):]
    if not sep or not num.isdigit():
        return None
    return int(num), len(payload.encode("utf8"))


class _AccountingAlarm:
    """bounds a blocking transfer: after SHORT seconds the recorded traffic is inspected - if pkgcore announced a
    count different from the bytes it sent, waiting longer is pointless (the daemon waits for bytes that will never
    come, or has already misread the stream) and EbdHang is raised at once; otherwise wait up to TIMEOUT."""
    SHORT = 8

    def __init__(self, tee, prefix, what):
        self.tee, self.prefix, self.what = tee, prefix, what
        self.left = TIMEOUT

    def _fire(self, *a):
        acc = _announced_vs_sent("".join(self.tee.rec or []), self.prefix)
        self.left -= self.SHORT
        if (acc is not None and acc[0] != acc[1]) or self.left <= 0:
            raise ebd.EbdHang(f"no reply while waiting for {self.what}")
        signal.setitimer(signal.ITIMER_REAL, min(self.SHORT, self.left))

    def __enter__(self):
        self.old = signal.signal(signal.SIGALRM, self._fire)
        signal.setitimer(signal.ITIMER_REAL, self.SHORT)

    def __exit__(self, *a):
        signal.setitimer(signal.ITIMER_REAL, 0)
        signal.signal(signal.SIGALRM, self.old)
        return False


def _size_class(n):
    for lim, nm in ((4096, "<4KiB"), (65536, "4-64KiB"), (131072, "64-128KiB"), (1048576, "128KiB-1MiB")):
        if n < lim:
            return nm
    return ">=1MiB"


def _size_suffix(nbytes):
    """payloads below 4 KiB are the ordinary case; above, the size class is part of the root-cause key"""
    return "" if nbytes < 4096 else ":payload-" + _size_class(nbytes)


def _main_loop_alive(ebp, timeout=None):
    with ebd.alarm(timeout or TIMEOUT, "main loop alive reply"):
        ebp.write("alive")
        return ebp.expect("yep!", flush=True)


def _first_risky(items):
    """root-cause class of the value most likely responsible for a whole-transfer failure"""
    order = []
    for _, v, _ in items:
        order.append(root_cause(v))
    pri = sorted(order, key=lambda r: (0 if r.startswith("seq-element") and not r.endswith(":plain") else
                                       1 if r == "scalar-with-squote:backslash" else
                                       2 if r.startswith("scalar-with") else 3 if r.startswith("seq-element") else 4, r))
    return pri[0] if pri else "empty-env"


def _parse_env0(data: bytes):
    d = {}
    for rec in data.split(b"\0"):
        if b"=" in rec:
            k, _, v = rec.partition(b"=")
            d[k] = v
    return d


def compare(case, obs, child, viol, transport):
    for name, v, exported in case["items"]:
        rc = root_cause(v)
        got = obs.get(name)
        if got is None:
            viol(f"quoting:{rc}", f"[{transport}] missing: {name} is not declared in the daemon shell after the transfer")
            continue
        flags, pairs = got
        if isinstance(v, list):
            want = [(str(i), e.encode("utf8")) for i, e in enumerate(v)]
            if "a" not in flags:
                viol(f"seq-not-array:{rc}", f"[{transport}] {name}: flags {flags!r}, expected an indexed array")
            if pairs != want:
                viol(f"quoting:{rc}", f"[{transport}] value: {name}: sent {_short(v)}, daemon has {_short(pairs)}")
        else:
            want = [("0", v.encode("utf8"))]
            if "a" in flags or "A" in flags:
                viol(f"scalar-is-array:{rc}", f"[{transport}] {name}: flags {flags!r}")
            if pairs != want:
                viol(f"quoting:{rc}", f"[{transport}] value: {name}: sent {_short(v.encode('utf8'))} ({len(v.encode('utf8'))} "
                                    f"bytes), daemon has {_short([p[1] for p in pairs])} "
                                    f"({[len(p[1]) for p in pairs]} bytes)")
        if ("x" in flags) != bool(exported):
            viol("export-flag:" + ("lost" if exported else "leaked"),
                 f"[{transport}] {name}: flags {flags!r}, expected exported={exported}")
        if child is not None and not isinstance(v, list):
            cv = child.get(name.encode())
            if exported and cv != v.encode("utf8") and pairs == want:
                viol("child-env:wrong", f"[{transport}] {name}: child process sees {cv!r}, expected {v.encode('utf8')!r}")
            if not exported and cv is not None:
                viol("child-env:leaked", f"[{transport}] {name} marked non-exported but a child process sees {cv!r}")


# ---- metadata (depend-like) path --------------------------------------------------------------

def _check_depend(ctx, dm, case, env, names, out, viol, symptom, reported):
    """`gen_metadata <count>\\n<env>`: the daemon evals the env in a sub-shell and sources $EBUILD; the
    harness ebuild sources the observer script (builtins only; external commands are forbidden there)."""
    ebp = dm.get()
    tee = ebp.ebd_write
    obs_script = os.path.join(dm.cwd, "observer.bash")
    ebuild = os.path.join(dm.cwd, "pkg-1.ebuild")
    with open(obs_script, "w") as f:
        f.write(observer_code(names, out, None))
    if not os.path.exists(ebuild):
        with open(ebuild, "w") as f:
            f.write(f"EAPI=8\nDESCRIPTION=vt\nSLOT=0\nsource '{obs_script}'\n")
    from pkgcore.ebuild import processor

    pkg = _fake_pkg(ebuild)
    env = dict(env)
    env["PKGCORE_EBUILD_PHASES"] = tuple(pkg.eapi.phases.values())
    env["PKGCORE_METADATA_KEYS"] = tuple(pkg.eapi.metadata_keys)
    keys = {}

    def receive_key(self, line):
        line = line.split("=", 1)
        if len(line) == 2:
            keys[line[0]] = line[1]

    tee.rec = []
    hang = None
    res = None
    try:
        try:
            with _AccountingAlarm(tee, "gen_metadata ", "gen_metadata reply"):
                # ProcessorError/ProcessingInterruption = pkgcore reporting that the daemon refused or garbled the
                # request: for an in-domain env that is the "rejected" symptom, not a crash of its own
                res = core.guarded(ctx, case, lambda: ebp._run_depend_like_phase(
                    "gen_metadata", pkg, None, env=env, extra_commands={"key": receive_key}) or True,
                    expected=(ebd.EbdHang, processor.ProcessorError, processor.ProcessingInterruption))
        except ebd.EbdHang as e:
            hang = e
        except (processor.ProcessorError, processor.ProcessingInterruption) as e:
            res = e
    finally:
        written = "".join(tee.rec)
        tee.rec = None
    # byte accounting: last header "gen_metadata N\n"
    count_ok = True
    pos = written.rfind("gen_metadata ")
    head, sep, payload = written[pos:].partition("\n") if pos >= 0 else ("", "", "")
    if pos < 0 or not sep or not head[len("gen_metadata "):].isdigit():
        viol("depend:bad-header", f"wrote {written[:80]!r}")
        dm.kill()
        return reported
    announced = int(head[len("gen_metadata "):])
    actual = len(payload.encode("utf8"))
    if announced != actual:
        count_ok = False
        viol("byte-count:depend" + (":nonascii" if not payload.isascii() else ""),
             f"announced {announced} but sent {actual} payload bytes; outcome {res!r}{' (no reply)' if hang else ''}")
    if not count_ok:
        dm.kill()
        return reported
    # pkgcore's own exchange (no harness chunk is ever sent on this path)
    culprit = _first_risky(case["items"])
    # the constant part (PKGCORE_EBUILD_PHASES ... on the export line) is single-line; what the case adds decides
    pclass = ("multiline-payload" if payload.count("\n") else culprit) + _size_suffix(actual)
    risky = (culprit.startswith("seq-element") and not culprit.endswith(":plain")) or culprit.startswith("scalar-with")
    if hang is not None:
        viol(f"transfer-failed:depend:{pclass}", f"[depend] hang: gen_metadata got no reply although the announced byte "
             f"count was right ({hang}); daemon stderr: {dm.stderr_tail()!r}")
        dm.kill()
        return reported
    if res is not True:
        if core.crashed(res):
            reported.add("crash")
        else:
            viol(f"quoting:{culprit}" if risky else f"transfer-failed:depend:{pclass}",
                 f"[depend] rejected: metadata run failed: {type(res).__name__}: {str(res)[:200]}; "
                 f"daemon stderr: {dm.stderr_tail()!r}")
        dm.kill()
        return reported
    try:
        with open(out, "rb") as f:
            obs = parse_observation(f.read())
    except (OSError, ValueError) as e:
        if count_ok:
            symptom("rejected", f"metadata run reported success but the ebuild was not sourced with the env: {e}")
        dm.kill()
        return reported
    compare(case, obs, None, viol, "depend")
    if keys.get("DESCRIPTION") != "vt" and count_ok:
        symptom("desync-after-transfer", f"metadata keys came back as {keys!r}")
    try:
        with ebd.alarm(TIMEOUT, "alive reply"):
            ebp.write("alive")
            if not ebp.expect("yep!", flush=True):
                if count_ok:
                    symptom("desync-after-transfer", "`alive` not answered with `yep!` after gen_metadata")
                dm.kill()
    except ebd.EbdHang as e:
        if count_ok:
            symptom("desync-after-transfer", str(e))
        dm.kill()
    return reported


# ---------------------------------------------------------------------------------------------

def family_cases():
    """small deterministic family that runs first: a single quote paired with every other special character / every
    executable payload, each special alone, multi-line payloads (embedded newline; the non-exported marker puts the
    plain assignments on a line of their own), over the transports"""
    specials = list("'\"\\$`\n\t!*;&|<>(){}#~ []?=") + ["\r", "\x01", "\u00e9"]
    payloads = ["`echo q`", "$(echo q)", "$Q", "${Q}", "$((1+1))", "\\n", "\\x41", "$'", "\\'", "\\\\"]
    first = ["don't run `echo q`", "it's $(echo q)", "a\nb", "a\n", "\n", "a'\nb", "l1\nl2\nl3", "it's a \\n test"]
    vals = list(first)
    for c in payloads + specials:
        vals += ["a'" + c + "b", "don't " + c + c, c, "x" + c + "y"]
    seen, out = set(), []

    def add(transport, items, marker="absent-if-possible"):
        case = {"transport": transport, "items": items, "marker": marker, "tuples": False}
        k = core.jdump(case)
        if k not in seen:
            seen.add(k)
            out.append(case)

    for tr in ("inline", "file", "depend"):  # multi-line through the marker, and a newline value next to it
        add(tr, [["VT_a", "x", False], ["VT_b", "y z", True]], "auto")
        add(tr, [["VT_a", "x y", False]], "auto")
        add(tr, [["VT_a", "p\nq", False], ["VT_b", ["r", "s t"], True]], "auto")
    for v in vals:
        for tr in ("inline", "file"):
            add(tr, [["VT_a", v, True]])
    for v in first:
        add("depend", [["VT_a", v, True]])
    for c in payloads + [x for x in specials if x not in ("\x01",)]:
        for tr in ("inline", "file"):
            add(tr, [["VT_a", ["a" + c + "b", "'" + c], True]])
    return out


def size_cases():
    """size dimension (real ebuild environments are routinely > 64 KiB): total payload just below/above 4 KiB, 64 KiB,
    128 KiB and 1 MiB, as one huge value or many medium values, inline and file transport (+ two metadata-path cases);
    stored compactly, expanded by expand_items()"""
    out = []
    for t in (4096, 65536, 131072, 1048576):
        for target in (t - 300, t + 300):
            for shape in ("one", "many"):
                for tr in ("inline", "file"):
                    out.append({"transport": tr, "sized": {"target": target, "shape": shape, "text": "plain"},
                                "marker": "auto", "tuples": False})
    for target in (65536 + 300, 131072 + 300):
        for tr in ("inline", "file"):
            out.append({"transport": tr, "sized": {"target": target, "shape": "one", "text": "mixed"},
                        "marker": "auto", "tuples": False})
    for shape in ("one", "many"):
        out.append({"transport": "depend", "sized": {"target": 65536 + 300, "shape": shape, "text": "plain"},
                    "marker": "auto", "tuples": False})
    return out


def plan(tier, seed):
    fam = ([{"task": "sizes", "slice": i, "nslices": 2} for i in range(2)]
           + [{"task": "family", "slice": i, "nslices": 4} for i in range(4)])
    # ~20-40 ms per environment on an idle machine (one phase session, three harness chunks, one child process)
    if tier == "quick":
        return fam + [{"task": "hyp", "examples": 160, "transports": tr}
                      for tr in (["inline"], ["file"], ["inline", "file"], ["depend"]) for _ in range(3)]
    return fam + [{"task": "hyp", "examples": 1500, "transports": tr}
                  for tr in (["inline"], ["file"], ["inline", "file"], ["depend"]) for _ in range(8)]


def run_task(ctx, task, **kw):
    if task not in ("hyp", "family", "sizes"):
        raise core.HarnessError(f"unknown task {task}")
    dm = Daemon(ctx)
    if task in ("family", "sizes"):
        try:
            cases = family_cases() if task == "family" else size_cases()
            ctx.note(f"{task}_size", len(cases))
            for i, c in enumerate(cases):
                if i % kw["nslices"] == kw["slice"]:
                    if ctx.out_of_time():
                        break
                    check_env(ctx, dm, c)
            ctx.count("daemons_spawned", dm.spawned)
        finally:
            dm.kill()
        return

    def one(c):
        if not ctx.out_of_time():  # wall-clock guard also inside a chunk (cases can take seconds on a loaded machine)
            check_env(ctx, dm, c)

    try:
        core.hyp_run(ctx, env_case(tuple(kw["transports"])), one, kw["examples"], chunk=20)
        ctx.count("daemons_spawned", dm.spawned)
    finally:
        dm.kill()


def replay(ctx, case):
    dm = Daemon(ctx)
    try:
        check_env(ctx, dm, case)
    finally:
        dm.kill()


def shrink_case(ctx, bucket, case):
    """greedy: single variable, then drop characters / elements while the same bucket is reported"""
    if "sized" in case:
        return None  # already a compact, deterministic case
    if len(case["items"]) == 1 and sum(len(e) for e in (case["items"][0][1] if isinstance(case["items"][0][1], list)
                                                      else [case["items"][0][1]])) <= 3:
        return None  # already minimal (e.g. a committed replay)
    dm = Daemon(ctx)
    quiet = core.Ctx(ctx.pid, ctx.tier, ctx.seed)

    def hits(c):
        try:
            return bucket in check_env(quiet, dm, c, record=False)
        except core.HarnessError:
            return False

    try:
        best = case
        for it in case["items"]:
            c = dict(case, items=[it], marker="auto", tuples=False)
            if hits(c):
                best = c
                break
        else:
            return None
        budget = 60
        t_end = time.time() + 40
        changed = True
        while changed and budget > 0 and time.time() < t_end:
            changed = False
            name, v, exp = best["items"][0]
            cands = []
            if isinstance(v, list):
                cands += [v[:i] + v[i + 1:] for i in range(len(v))]
                for i, e in enumerate(v):
                    cands += [v[:i] + [e[:j] + e[j + 1:]] + v[i + 1:] for j in range(len(e))]
            else:
                cands += [v[:j] + v[j + 1:] for j in range(len(v))]
            for nv in cands:
                budget -= 1
                if budget <= 0:
                    break
                c = dict(best, items=[["VT_a", nv, exp]])
                if hits(c):
                    best = c
                    changed = True
                    break
        return best
    finally:
        dm.kill()
        quiet.cleanup()
