"""C16 Resolver choice policy: highest version for upgrades, reuse for minimal installs, determinism.

Generated (vf.gen.resolverworld):
  * policy worlds - profile 'mono': every dependency is unversioned or `>=` (optionally slotted), no blockers, so the
    highest version of a slot satisfies whatever a lower one satisfies and choices cannot conflict; dependency cycles
    only through PDEPEND (other cycles are accepted by the resolver only under context-dependent conditions, and a
    build-time dependency on the package's own name is only taken from the installed db); ONE target;
    upgrade_resolver / min_install_resolver as pmerge builds them (verify_vdb on/off, lists or RepositoryGroup; no
    empty-tree / force-replace, which deliberately ignore or re-merge installed packages).
  * determinism worlds - profile 'full' (everything C15 generates, all resolver switches, 1-3 targets).

Oracle:
  * reference resolvability R (least fixpoint, shares no code with the resolver): a package is resolvable iff every
    clause of every dependency class has an alternative matched by a resolvable package (installed packages count as
    resolvable outright when verify_vdb is off: pmerge wipes their dependencies then).  Least fixpoint = only
    well-founded (cycle-free) justifications, which is what every cycle policy of the resolver accepts.
  * upgrade (P1): if some instance of the highest version matching the target is resolvable, resolution must succeed
    and the final state must hold that version; if the installed instance of that version is resolvable it must be
    the one used (no merge of the same cpv).
  * min-install (P2): if a resolvable installed package X matches the target and no dependency in the universe asks
    for a version of that name+slot that X does not satisfy, then resolution must succeed, X must still be there,
    and - when no dependency names another slot of it - nothing else matching the target may be merged.
  * determinism (P3): resolving the same world again with fresh objects, and again with every repository dict built in
    a different insertion order, must give the identical outcome and operation list.

Dropped w.r.t. DESIGN.md: brute-force search over version choices (the mono profile makes the fixpoint exact);
multi-target policy checks (a later target may already be satisfied by what an earlier one pulled in).
"""

import random

from .. import core
from ..gen import resolverworld as RW
from ..ref import pms_version as R
from . import c15

RW.preload()

ID = "C16"
TITLE = "Resolver choice policy: highest version for upgrades, reuse for minimal installs"
LEVEL = "exploration"
TECHNIQUE = "random conflict-free universes; reference resolvability fixpoint predicts the version/instance chosen for the target; re-run + insertion-order metamorphic determinism"
DESIGN_REF = "DESIGN.md §3 C16"
LEVEL_TEXT = (
    "Generated-input search: universes in which greedy choices cannot conflict are resolved with the upgrade and "
    "minimal-install resolvers and the package chosen for the single target is compared with the prediction of an "
    "independent resolvability fixpoint; arbitrary C15 universes are resolved three times (same inputs, fresh objects, "
    "shuffled repository insertion order) and the plans compared."
)
LEVEL_NOTE = (
    "Trusted: resolverworld's atom matcher, the least-fixpoint resolvability model, FakePkg/SimpleTree. Policy checks "
    "cover single-target requests on monotone universes only. No proof of absence."
)
RULE = (
    "policy: mono worlds (2-5 names, <=12 packages, any-of groups, all five classes, `>=`/slot deps, cycles through PDEPEND only) + one target; non-trivial = "
    ">=2 distinct candidate versions match the target, >=1 package of that name is installed, the precondition of P1/P2 "
    "holds and the resolver succeeded; determinism: full worlds, non-trivial = success with >=2 plan operations; "
    "distinct = JSON of the world"
)
ASSUMPTIONS = [
    "on the mono profile a least-fixpoint-resolvable package is resolvable by the greedy resolver (no blockers, no upper bounds, so choices cannot conflict)",
    "FakePkg/SimpleTree behave like real repositories as far as the resolver is concerned",
]
BUDGET = {"quick": 50, "thorough": 900}


def resolvable_set(world, pk):
    """ids of resolvable packages (least fixpoint)"""
    verify = bool(world["resolver"].get("verify_vdb", True))
    res = set()
    if not verify:
        res |= {i for i, p in pk.items() if p.livefs}
    pend = [p for p in pk.values() if p.id not in res]
    clauses = {
        p.id: [[RW.ratom(a) for a in cl] for cls in RW.CLASSES for cl in p.clauses(cls)] for p in pend
    }
    changed = True
    while changed:
        changed = False
        for p in pend:
            if p.id in res:
                continue
            ok = True
            for alts in clauses[p.id]:
                if not any((not a.blocks) and any(q.id in res and a.match(q) for q in pk.values()) for a in alts):
                    ok = False
                    break
            if ok:
                res.add(p.id)
                changed = True
    return res


def _vkey(p):
    return (p.ver, p.rev)


def _vmax(pkgs):
    best = None
    for p in pkgs:
        if best is None or R.vcmp(p.ver, p.rev, best.ver, best.rev) > 0:
            best = p
    return best


def _same_ver(p, q):
    return R.vcmp(p.ver, p.rev, q.ver, q.rev) == 0


def gen_policy_world(seed):
    w = RW.gen_world(seed, "mono")
    rnd = random.Random(seed ^ 0x5A5A5A5A)
    pk = RW.rpkgs(w)
    keys = sorted({p.key for p in pk.values()})
    inst_keys = sorted({p.key for p in pk.values() if p.livefs})
    key = rnd.choice(inst_keys) if inst_keys and rnd.randrange(4) else rnd.choice(keys)
    k = rnd.randrange(10)
    if k <= 5:
        t = key
    elif k <= 7:
        t = f">={key}-{rnd.choice(RW.VERS[:3])}"
    else:
        t = f"{key}:{rnd.choice(('0', '0', '1'))}"
    w["targets"] = [t]
    w["resolver"]["empty_tree"] = False
    w["resolver"]["force_replace"] = False
    w["resolver"]["kind"] = "upgrade" if rnd.randrange(2) else "min_install"
    return w


def eval_policy(ctx, world, record=True):
    pk = RW.rpkgs(world)
    t = RW.ratom(world["targets"][0])
    kind = world["resolver"]["kind"]
    cands = [p for p in pk.values() if t.match(p)]
    res_ids = resolvable_set(world, pk)
    classes = ["policy:" + kind, "verify_vdb:" + ("yes" if world["resolver"].get("verify_vdb") else "no")]
    expect = None  # (what, detail) when the precondition of the checked clause holds
    if cands:
        top = _vmax(cands)
        top_inst = [p for p in cands if _same_ver(p, top)]
        if kind == "upgrade":
            if any(p.id in res_ids for p in top_inst):
                expect = "P1"
            else:
                classes.append("precondition:highest-unresolvable")
        else:
            inst = [p for p in cands if p.livefs and p.id in res_ids]
            if inst:
                # what prefer_reuse_strategy tries first: the highest installed match
                X = _vmax(inst)
                demands = [
                    a
                    for p in pk.values()
                    for cls in RW.CLASSES
                    for cl in p.clauses(cls)
                    for a in map(RW.ratom, cl)
                    if a.key == X.key and not a.blocks
                ]
                if all(a.match(X) for a in demands if a.slot is None or a.slot == X.slot):
                    expect = "P2"
                else:
                    classes.append("precondition:installed-must-be-upgraded")
            else:
                classes.append("precondition:no-resolvable-installed-match")
    else:
        classes.append("precondition:no-candidate")

    out = None
    try:
        out = core.guarded(ctx, world, lambda: c15.resolve(world), expected=(RW.StepLimit, RecursionError))
    except RW.StepLimit as e:
        ctx.violation("hang:resolution-step-limit", world, str(e))
    except RecursionError as e:
        ctx.violation("crash:RecursionError@pkgcore/resolver/plan:_rec_add_atom", world, f"RecursionError: {e}")
    if core.crashed(out):
        out = None

    nontrivial = False
    if out is not None and expect is not None:
        classes.append("checked:" + expect)
        if not out["ok"]:
            ctx.violation(
                f"{kind}:resolution-failed", world,
                f"target {t.text}: reference model finds it resolvable, resolver failed on {out['failed']}",
            )
        else:
            S, merged = RW.final_state(pk, out["ops"])
            Sp = [pk[i] for i in S]
            nvers = len({(p.ver, p.rev or "0") for p in cands})
            nontrivial = nvers >= 2 and any(p.livefs and p.key == t.key for p in pk.values())
            if expect == "P1":
                got = [p for p in Sp if t.match(p)]
                if not any(_same_ver(p, top) for p in got):
                    ctx.violation(
                        "upgrade:not-highest", world,
                        f"target {t.text}: highest resolvable version is {top.cpv}, final state has {[p.id for p in got]}; plan={out['ops']}",
                    )
                else:
                    inst_top = [p for p in top_inst if p.livefs and p.id in res_ids]
                    if inst_top:
                        classes.append("P1:installed-equal-version")
                        if not any(p.id in S for p in inst_top):
                            ctx.violation(
                                "upgrade:installed-not-preferred", world,
                                f"target {t.text}: installed {inst_top[0].id} has the highest version and is resolvable, but plan={out['ops']}",
                            )
                    if any(not _same_ver(p, top) for p in cands):
                        classes.append("P1:lower-candidates-exist")
            else:
                if X.id not in S:
                    ctx.violation(
                        "min_install:installed-not-kept", world,
                        f"target {t.text}: installed {X.id} satisfies it, but plan={out['ops']}",
                    )
                elif not any(a.slot is not None and a.slot != X.slot for a in demands):
                    extra = [i for i in merged if t.match(pk[i])]
                    if extra:
                        ctx.violation(
                            "min_install:extra-merge", world,
                            f"target {t.text}: installed {X.id} satisfies it, nothing asks for another slot, yet {extra} merged; plan={out['ops']}",
                        )
                if any(not p.livefs for p in cands):
                    classes.append("P2:source-candidates-exist")
    elif out is not None:
        classes.append("outcome:" + ("success" if out["ok"] else "failure"))
    if record:
        ctx.case(world, nontrivial=nontrivial, classes=classes, key=core.jdump(world))


def eval_determinism(ctx, world, record=True):
    runs = []
    for label, shuffle in (("first", None), ("rerun", None), ("insertion-order", 1), ("insertion-order", 2)):
        try:
            out = core.guarded(ctx, world, lambda s=shuffle: c15.resolve(world, shuffle_seed=s), expected=(RW.StepLimit, RecursionError))
        except (RW.StepLimit, RecursionError) as e:
            out = {"ok": None, "ops": None, "failed": type(e).__name__}
        if core.crashed(out):
            out = {"ok": None, "ops": None, "failed": "crash"}
        runs.append((label, out))
    base = runs[0][1]
    for label, out in runs[1:]:
        if (out["ok"], out["ops"], out["failed"]) != (base["ok"], base["ops"], base["failed"]):
            ctx.violation(
                f"determinism:{label}", world,
                f"first run: ok={base['ok']} ops={base['ops']} failed={base['failed']}; {label}: ok={out['ok']} ops={out['ops']} failed={out['failed']}",
            )
            break
    if record:
        nontrivial = bool(base["ok"]) and len(base["ops"]) >= 2
        classes = ["determinism", "outcome:" + {True: "success", False: "failure", None: "exception"}[base["ok"]]]
        if "src2" in world["repos"]:
            classes.append("repos:two-sources")
        ctx.case(world, nontrivial=nontrivial, classes=classes, key=core.jdump(world))


def plan(tier, seed):
    if tier == "quick":
        return [{"task": "policy", "examples": 250} for _ in range(11)] + [{"task": "determinism", "examples": 60} for _ in range(5)]
    return [{"task": "policy", "examples": 8000} for _ in range(20)] + [{"task": "determinism", "examples": 2500} for _ in range(12)]


def run_task(ctx, task, **kw):
    if task == "policy":
        rnd = random.Random(f"c16:{ctx.seed}:{ctx.shard}")  # selects which slice of the seed space this run visits
        for i in range(kw["examples"]):
            if i % 32 == 0 and ctx.out_of_time():
                break
            eval_policy(ctx, gen_policy_world(rnd.getrandbits(62)))
    elif task == "determinism":
        RW.drive(ctx, "full", kw["examples"], lambda w: eval_determinism(ctx, w), salt=16)
    else:
        raise core.HarnessError(f"unknown task {task}")


def replay(ctx, case):
    if len(case["targets"]) == 1 and not case["resolver"].get("empty_tree") and not case["resolver"].get("force_replace") and _is_mono(case):
        eval_policy(ctx, case)
    eval_determinism(ctx, case, record=False)


def _is_mono(world):
    for pkgs in world["repos"].values():
        for d in pkgs:
            for cls in d.get("deps", {}).values():
                for cl in cls:
                    for a in cl:
                        ra = RW.ratom(a)
                        if ra.blocks or ra.op not in ("", ">="):
                            return False
    return True


def shrink_case(ctx, bucket, case):
    def still(w):
        if not w["targets"]:
            return False
        c = core.Ctx(ID, ctx.tier, ctx.seed)
        try:
            if bucket.startswith("determinism:"):
                eval_determinism(c, w, record=False)
            else:
                eval_policy(c, w, record=False)
        finally:
            c.cleanup()
        return bucket in c.violations

    return RW.shrink_world(case, still)
