"""C16 Resolver choice policy: highest version for upgrades, reuse for minimal installs, determinism.

Generated (vf.gen.resolverworld):
  * policy worlds - profiles 'mono' (1/8), 'mono-cyclic' (3/8), 'mono-slots' (2/8), 'mono-sparse' (2/8): every
    dependency is unversioned or `>=` (optionally slotted), so the highest version of a slot satisfies whatever a
    lower one satisfies and choices cannot conflict.  Names are ranked; every DEPEND/BDEPEND/RDEPEND/IDEPEND clause has
    an alternative on a higher-ranked name, PDEPEND may point anywhere, and any-of groups get extra alternatives
    pointing back (own or lower-ranked name) - so the worlds contain dependency cycles, build-time ones included, that
    a resolver can always get out of.  Slot-1 versions may build-depend on slot 0 of their own name (cross-slot
    bootstrap deps), dependencies on multi-slot names are partly slot-qualified, and packages carry blockers that
    match no package of any repository (inert: they must not influence anything).  The sub-profiles shift the
    weights: more build-time clauses/back alternatives (cyclic), more slots and little installed (slots), few
    dependencies = independent targets and more blockers (sparse).  1-3 targets on distinct names in generated
    (unsorted) order, as `pmerge --disable-resolver-target-sorting` passes them; upgrade_resolver /
    min_install_resolver as pmerge builds them (verify_vdb on/off, lists or RepositoryGroup; no empty-tree /
    force-replace, which deliberately ignore or re-merge installed packages).
  * determinism worlds - profile 'full' (everything C15 generates, all resolver switches, 1-3 targets).

Oracle:
  * reference resolvability R (least fixpoint, shares no code with the resolver): a package is *provably* resolvable
    iff every PDEPEND clause has an alternative matched by a provably resolvable package and every other clause has
    such an alternative on a HIGHER-ranked name or on a LOWER slot of its own name (installed packages count outright
    when verify_vdb is off: pmerge wipes their dependencies then); blocker clauses ask for nothing (only blockers
    that match no package are inside the judged domain - replayed worlds with other blockers are not judged).  Alternatives that point back are ignored: whether one of them works depends on
    the resolver's context-dependent cycle rules, but when it fails the forward alternative is still there.
  * which targets are judged: target i is judged iff its name is not reachable (any class, any alternative, any
    candidate) from the candidates of targets 1..i-1 - otherwise it may legitimately be "already satisfied" by a lower
    version when its turn comes.  The first target is always judged.
  * upgrade (P1), per judged target: if an instance of the highest version matching the target is provably resolvable,
    the final state must hold that version; if the installed instance of that version is provably resolvable it must be
    the one used (no merge of the same cpv).
  * min-install (P2), per judged target: if a provably resolvable installed package X matches the target and no
    dependency in the universe asks for a version of that name+slot that X does not satisfy, X must still be there,
    and - when no dependency names another slot of it - nothing else matching the target may be merged.
  * a target is also not judged when its closure contains a back-pointing alternative on a name that has two
    versions in one slot: such an alternative can succeed, in a cycle context, with a lower version than another
    requester needs, and the resolver does not backtrack over that (no global backtracking is promised).
  * a failed resolution is a violation only when the target the resolver gave up on is a judged one whose P1/P2
    precondition holds (the hazard above is evaluated over the closures of that target and all earlier ones).
  * determinism (P3): resolving the same world again with fresh objects, and again with every repository dict built in
    a different insertion order, must give the identical outcome and operation list.
Class counters: world:inert-blocker, world:cross-slot-build-dep, multi_target, judged-later-target, cycle:installed-only-retry (a cycle made the resolver retry an atom
against the installed db only), depend_cycle_survivable (such a retry happened and resolution still succeeded).

Dropped w.r.t. DESIGN.md: brute-force search over version choices (on these profiles the fixpoint is a sound
sufficient condition); targets whose name an earlier target can pull in are not judged.
"""

import random

from .. import core
from ..gen import resolverworld as RW
from ..ref import pms_version as R
from . import c15

RW.preload()

ID = "C16"
TITLE = "Resolver choice policy: highest version for upgrades, reuse for minimal installs"
LEVEL = "exploration"
TECHNIQUE = "random conflict-free universes; reference resolvability fixpoint predicts the version/instance chosen for the target; re-run + insertion-order metamorphic determinism"
DESIGN_REF = "DESIGN.md §3 C16"
LEVEL_TEXT = (
    "Generated-input search: universes in which greedy choices cannot conflict are resolved with the upgrade and "
    "minimal-install resolvers (1-3 targets) and the package chosen for every judgeable target is compared with the prediction of an "
    "independent resolvability fixpoint; arbitrary C15 universes are resolved three times (same inputs, fresh objects, "
    "shuffled repository insertion order) and the plans compared."
)
LEVEL_NOTE = (
    "Trusted: resolverworld's atom matcher, the least-fixpoint resolvability model, FakePkg/SimpleTree. Policy checks "
    "cover monotone universes and only targets whose name no earlier target can pull in. No proof of absence."
)
RULE = (
    "policy: mono / mono-cyclic worlds (2-5 names, <=12 packages, any-of groups, all five classes, `>=`/slot deps, "
    "survivable cycles through PDEPEND and back-pointing any-of alternatives) + 1-3 unsorted targets; non-trivial = for "
    "some judged target >=2 distinct candidate versions match, >=1 package of that name is installed, the precondition "
    "of P1/P2 holds and the resolver succeeded; determinism: full worlds, non-trivial = success with >=2 plan operations; "
    "distinct = JSON of the world"
)
ASSUMPTIONS = [
    "on the mono profiles a package that is least-fixpoint resolvable through forward (rank-increasing / lower own slot) and PDEPEND alternatives alone is resolvable by the greedy resolver, provided no back-pointing alternative in the closures of the targets processed so far names a package with two versions in one slot (otherwise a back alternative can succeed with a lower version than another requester needs; the resolver does not backtrack over that)",
    "FakePkg/SimpleTree behave like real repositories as far as the resolver is concerned",
]
BUDGET = {"quick": 50, "thorough": 900}


def _rank(key):
    return RW.NAMES.index(key) if key in RW.NAMES else -1


def _forward(a, p):
    """does atom a of package p lead strictly 'forward': to a higher-ranked name, or to a lower slot of p's own name
    (both orders are well-founded, so forward justifications never pass through a package in flight)"""
    if a.key != p.key:
        return _rank(a.key) > _rank(p.key)
    return a.slot is not None and a.slot.isdigit() and p.slot.isdigit() and int(a.slot) < int(p.slot)


def resolvable_set(world, pk, forward_only=True):
    """ids of resolvable packages (least fixpoint).  forward_only: a DEPEND/BDEPEND/RDEPEND/IDEPEND clause only counts
    as satisfiable through an alternative on a higher-ranked name (rank = position in resolverworld.NAMES) or on a
    lower slot of the package's own name; PDEPEND
    clauses through any alternative.  That is the part of resolvability that cannot depend on how the resolver
    treats a dependency cycle: whatever happens to an alternative that points back, the forward one remains."""
    verify = bool(world["resolver"].get("verify_vdb", True))
    res = set()
    if not verify:
        res |= {i for i, p in pk.items() if p.livefs}
    pend = [p for p in pk.values() if p.id not in res]
    clauses = {}
    for p in pend:
        cls_ = []
        for cls in RW.CLASSES:
            for cl in p.clauses(cls):
                alts = [RW.ratom(a) for a in cl]
                if all(a.blocks for a in alts):
                    continue  # a blocker asks for nothing (the judged domain only has blockers that match nothing)
                alts = [a for a in alts if not a.blocks]
                if forward_only and cls != "PDEPEND":
                    alts = [a for a in alts if _forward(a, p)]
                cls_.append(alts)
        clauses[p.id] = cls_
    changed = True
    while changed:
        changed = False
        for p in pend:
            if p.id in res:
                continue
            ok = True
            for alts in clauses[p.id]:
                if not any(any(q.id in res and a.match(q) for q in pk.values()) for a in alts):
                    ok = False
                    break
            if ok:
                res.add(p.id)
                changed = True
    return res


def reach_keys(pk, start):
    """names of every package reachable from the packages `start` through any alternative of any class"""
    return {pk[i].key for i in reach_ids(pk, start)}


def back_alternative_hazard(pk, start):
    """Is there, among the packages reachable from `start`, a DEPEND/BDEPEND/RDEPEND/IDEPEND alternative that points
    back (not `_forward`) to a name with two different versions in one slot?  Such an alternative can *succeed* in a
    cycle context with a lower version than the one another requester needs (the version in flight, or a later `>=`
    request); the resolver does not backtrack over that, so resolvability of the highest version is then not provable
    by the fixpoint model.  With one version per slot every request for that name+slot gets the same package."""
    multi = set()
    seen = {}
    for q in pk.values():
        v = seen.setdefault((q.key, q.slot), (q.ver, q.rev or "0"))
        if v != (q.ver, q.rev or "0"):
            multi.add(q.key)
    if not multi:
        return False
    for i in reach_ids(pk, start):
        p = pk[i]
        for cls in RW.CLASSES:
            if cls == "PDEPEND":
                continue
            for cl in p.clauses(cls):
                for a in map(RW.ratom, cl):
                    if not a.blocks and a.key in multi and not _forward(a, p):
                        return True
    return False


def reach_ids(pk, start):
    seen, todo = set(), list(start)
    while todo:
        p = todo.pop()
        if p.id in seen:
            continue
        seen.add(p.id)
        for cls in RW.CLASSES:
            for cl in p.clauses(cls):
                for a in map(RW.ratom, cl):
                    if not a.blocks:
                        todo.extend(q for q in pk.values() if q.id not in seen and a.match(q))
    return seen


def _vkey(p):
    return (p.ver, p.rev)


def _vmax(pkgs):
    best = None
    for p in pkgs:
        if best is None or R.vcmp(p.ver, p.rev, best.ver, best.rev) > 0:
            best = p
    return best


def _same_ver(p, q):
    return R.vcmp(p.ver, p.rev, q.ver, q.rev) == 0


def gen_policy_world(seed):
    profile = ("mono", "mono-cyclic", "mono-cyclic", "mono-cyclic", "mono-slots", "mono-slots", "mono-sparse", "mono-sparse")[seed % 8]
    w = RW.gen_world(seed, profile)
    rnd = random.Random(seed ^ 0x5A5A5A5A)
    pk = RW.rpkgs(w)
    keys = sorted({p.key for p in pk.values()})
    inst_keys = sorted({p.key for p in pk.values() if p.livefs})
    nt = min(len(keys), RW._w(rnd, {"mono": [(1, 5), (2, 4), (3, 2)], "mono-sparse": [(1, 1), (2, 3), (3, 5)]}.get(profile, [(1, 2), (2, 4), (3, 3)])))
    first = rnd.choice(inst_keys) if inst_keys and rnd.randrange(4) else rnd.choice(keys)
    rest = [k for k in keys if k != first]
    rnd.shuffle(rest)
    targets = []
    for key in [first] + rest[: nt - 1]:
        k = rnd.randrange(10)
        if k <= 5:
            t = key
        elif k <= 7:
            t = f">={key}-{rnd.choice(RW.VERS[:3])}"
        else:
            t = f"{key}:{rnd.choice(('0', '0', '1'))}"
        targets.append(t)
    rnd.shuffle(targets)  # generated order, NOT sorted (pmerge --disable-resolver-target-sorting)
    w["targets"] = targets
    w["resolver"]["empty_tree"] = False
    w["resolver"]["force_replace"] = False
    w["resolver"]["kind"] = "upgrade" if rnd.randrange(2) else "min_install"
    return w


def _expectation(world, pk, t, kind, safe):
    """-> (expect, info, classes): expect 'P1'/'P2' when the precondition of the clause to check holds for target t"""
    cands = [p for p in pk.values() if t.match(p)]
    info = {"cands": cands}
    if not cands:
        return None, info, ["precondition:no-candidate"]
    top = _vmax(cands)
    top_inst = [p for p in cands if _same_ver(p, top)]
    info.update(top=top, top_inst=top_inst)
    if kind == "upgrade":
        if any(p.id in safe for p in top_inst):
            return "P1", info, []
        return None, info, ["precondition:highest-not-provably-resolvable"]
    inst = [p for p in cands if p.livefs and p.id in safe]
    if not inst:
        return None, info, ["precondition:no-resolvable-installed-match"]
    X = _vmax(inst)  # what prefer_reuse_strategy tries first: the highest installed match
    demands = [
        a
        for p in pk.values()
        for cls in RW.CLASSES
        for cl in p.clauses(cls)
        for a in map(RW.ratom, cl)
        if a.key == X.key and not a.blocks
    ]
    info.update(X=X, demands=demands)
    if all(a.match(X) for a in demands if a.slot is None or a.slot == X.slot):
        return "P2", info, []
    return None, info, ["precondition:installed-must-be-upgraded"]


def eval_policy(ctx, world, record=True):
    pk = RW.rpkgs(world)
    kind = world["resolver"]["kind"]
    targets = [RW.ratom(t) for t in world["targets"]]
    safe = resolvable_set(world, pk, forward_only=True)
    classes = ["policy:" + kind, "verify_vdb:" + ("yes" if world["resolver"].get("verify_vdb") else "no")]
    if len(targets) > 1:
        classes.append("multi_target")
    for p in pk.values():
        for cls in RW.CLASSES:
            for cl in p.clauses(cls):
                for a in map(RW.ratom, cl):
                    if a.blocks:
                        classes.append("world:inert-blocker")
                    elif a.key == p.key and a.slot is not None and a.slot != p.slot and cls != "PDEPEND" and len(cl) == 1:
                        classes.append("world:cross-slot-build-dep")
    # which targets can be judged: nothing an earlier target may pull in has the target's name (otherwise the
    # target can legitimately be 'already satisfied' by a lower version when its turn comes)
    plan_ = []
    reached = set()
    so_far = []  # candidates of this and all earlier targets: what may already be in the plan state
    for idx, t in enumerate(targets):
        cands = [p for p in pk.values() if t.match(p)]
        so_far.extend(cands)
        if t.key in reached:
            plan_.append((t, None, {"cands": cands}))
            classes.append("target:not-judged(name reachable from an earlier target)")
        elif back_alternative_hazard(pk, so_far):
            plan_.append((t, None, {"cands": cands}))
            classes.append("target:not-judged(back alternative on a multi-version name in its closure)")
        else:
            expect, info, cl = _expectation(world, pk, t, kind, safe)
            classes.extend(cl)
            plan_.append((t, expect, info))
            if expect and idx:
                classes.append("judged-later-target")
        reached |= reach_keys(pk, cands) | {t.key}
    # the statement implies success only where it promises a result: the target the resolver gave up on is a judged
    # one whose P1/P2 precondition holds (targets are processed in order; the earlier ones succeeded)
    def must_succeed(failed):
        for t, expect, _ in plan_:
            if failed and failed[0] == t.text:
                return expect is not None
        return False

    out = None
    try:
        out = core.guarded(ctx, world, lambda: c15.resolve(world), expected=(RW.StepLimit, RecursionError))
    except RW.StepLimit as e:
        ctx.violation("hang:resolution-step-limit", world, str(e))
    except RecursionError as e:
        ctx.violation("crash:RecursionError@pkgcore/resolver/plan:_rec_add_atom", world, f"RecursionError: {e}")
    if core.crashed(out):
        out = None

    nontrivial = False
    if out is not None:
        classes.append("outcome:" + ("success" if out["ok"] else "failure"))
        if out["vdb_forced"]:
            classes.append("cycle:installed-only-retry")
            if out["ok"]:
                classes.append("depend_cycle_survivable")
        if not out["ok"]:
            if must_succeed(out["failed"]):
                classes.append("checked:must-succeed")
                ctx.violation(
                    f"{kind}:resolution-failed", world,
                    f"targets {world['targets']}: the P1/P2 precondition holds for target {out['failed'][0]} in the reference model, resolver failed on {out['failed']}",
                )
        else:
            S, merged = RW.final_state(pk, out["ops"])
            Sp = [pk[i] for i in S]
            for t, expect, info in plan_:
                if expect is None:
                    continue
                classes.append("checked:" + expect)
                cands = info["cands"]
                nvers = len({(p.ver, p.rev or "0") for p in cands})
                if nvers >= 2 and any(p.livefs and p.key == t.key for p in pk.values()):
                    nontrivial = True
                if expect == "P1":
                    top, top_inst = info["top"], info["top_inst"]
                    got = [p for p in Sp if t.match(p)]
                    if not any(_same_ver(p, top) for p in got):
                        ctx.violation(
                            "upgrade:not-highest", world,
                            f"target {t.text}: highest resolvable version is {top.cpv}, final state has {[p.id for p in got]}; plan={out['ops']}",
                        )
                    else:
                        inst_top = [p for p in top_inst if p.livefs and p.id in safe]
                        if inst_top:
                            classes.append("P1:installed-equal-version")
                            if not any(p.id in S for p in inst_top):
                                ctx.violation(
                                    "upgrade:installed-not-preferred", world,
                                    f"target {t.text}: installed {inst_top[0].id} has the highest version and is resolvable, but plan={out['ops']}",
                                )
                        if any(not _same_ver(p, top) for p in cands):
                            classes.append("P1:lower-candidates-exist")
                else:
                    X, demands = info["X"], info["demands"]
                    if X.id not in S:
                        ctx.violation(
                            "min_install:installed-not-kept", world,
                            f"target {t.text}: installed {X.id} satisfies it, but plan={out['ops']}",
                        )
                    elif not any(a.slot is not None and a.slot != X.slot for a in demands):
                        extra = [i for i in merged if t.match(pk[i])]
                        if extra:
                            ctx.violation(
                                "min_install:extra-merge", world,
                                f"target {t.text}: installed {X.id} satisfies it, nothing asks for another slot, yet {extra} merged; plan={out['ops']}",
                            )
                    if any(not p.livefs for p in cands):
                        classes.append("P2:source-candidates-exist")
    if record:
        ctx.case(world, nontrivial=nontrivial, classes=sorted(set(classes)), key=core.jdump(world))


def eval_determinism(ctx, world, record=True):
    runs = []
    for label, shuffle in (("first", None), ("rerun", None), ("insertion-order", 1), ("insertion-order", 2)):
        try:
            out = core.guarded(ctx, world, lambda s=shuffle: c15.resolve(world, shuffle_seed=s), expected=(RW.StepLimit, RecursionError))
        except (RW.StepLimit, RecursionError) as e:
            out = {"ok": None, "ops": None, "failed": type(e).__name__}
        if core.crashed(out):
            out = {"ok": None, "ops": None, "failed": "crash"}
        runs.append((label, out))
    base = runs[0][1]
    for label, out in runs[1:]:
        if (out["ok"], out["ops"], out["failed"]) != (base["ok"], base["ops"], base["failed"]):
            ctx.violation(
                f"determinism:{label}", world,
                f"first run: ok={base['ok']} ops={base['ops']} failed={base['failed']}; {label}: ok={out['ok']} ops={out['ops']} failed={out['failed']}",
            )
            break
    if record:
        nontrivial = bool(base["ok"]) and len(base["ops"]) >= 2
        classes = ["determinism", "outcome:" + {True: "success", False: "failure", None: "exception"}[base["ok"]]]
        if "src2" in world["repos"]:
            classes.append("repos:two-sources")
        ctx.case(world, nontrivial=nontrivial, classes=classes, key=core.jdump(world))


def plan(tier, seed):
    if tier == "quick":
        return [{"task": "policy", "examples": 1500} for _ in range(11)] + [{"task": "determinism", "examples": 60} for _ in range(5)]
    return [{"task": "policy", "examples": 8000} for _ in range(20)] + [{"task": "determinism", "examples": 2500} for _ in range(12)]


def run_task(ctx, task, **kw):
    if task == "policy":
        rnd = random.Random(f"c16:{ctx.seed}:{ctx.shard}")  # selects which slice of the seed space this run visits
        for i in range(kw["examples"]):
            if i % 32 == 0 and ctx.out_of_time():
                break
            eval_policy(ctx, gen_policy_world(rnd.getrandbits(62)))
    elif task == "determinism":
        RW.drive(ctx, "full", kw["examples"], lambda w: eval_determinism(ctx, w), salt=16)
    else:
        raise core.HarnessError(f"unknown task {task}")


def replay(ctx, case):
    if case["targets"] and not case["resolver"].get("empty_tree") and not case["resolver"].get("force_replace") and _is_mono(case):
        eval_policy(ctx, case)
    eval_determinism(ctx, case, record=False)


def _is_mono(world):
    for pkgs in world["repos"].values():
        for d in pkgs:
            for cls in d.get("deps", {}).values():
                for cl in cls:
                    for a in cl:
                        ra = RW.ratom(a)
                        if ra.op not in ("", ">=") and not ra.blocks:
                            return False
                        if ra.blocks and any(ra.match(q) for q in RW.rpkgs(world).values()):
                            return False  # only blockers that match nothing are inside the judged domain
    return True


def shrink_case(ctx, bucket, case):
    def still(w):
        if not w["targets"]:
            return False
        c = core.Ctx(ID, ctx.tier, ctx.seed)
        try:
            if bucket.startswith("determinism:"):
                eval_determinism(c, w, record=False)
            else:
                eval_policy(c, w, record=False)
        finally:
            c.cleanup()
        return bucket in c.violations

    return RW.shrink_world(case, still)
