"""C14 USE-configured package views always reflect the current USE set.

What is driven: a real `ConfiguredTree.package_class(raw_pkg)` wrapper (mode "tree": stub domain handing
out (immutable, enabled) per case; the unchangeable container is the real InvertedContains of
IUSE-minus-immutable) or a wrapper class built directly with `make_wrapper` (mode "direct": unchangeable
settings given as a list, so locked flags can be absent *or* present without being in IUSE).  The raw
package is a `pkgcore.test.misc.FakePkgBase` (= ebuild_src.package) with generated DEPEND / RDEPEND /
BDEPEND / LICENSE / RESTRICT / REQUIRED_USE / SRC_URI, so the raw DepSets are produced by the real parsers.

History ops (JSON): enable / disable (request_enable/request_disable on "use" with 1..3 flags, changeable or
locked), force (PackageRestriction("use", ContainmentMatch(..)).force_True/force_False, the way restriction
code issues the requests), rollback (to a point previously reported by changes_count()), commit; every op
carries the list of attributes that are read right after it.

Oracle (independent of the wrapper cache):
  * every attribute read == the raw DepSet evaluated under the USE set the wrapper reports *now*
    (DepSet equality and string form), and its flattened leaves == the leaves my own evaluator
    (`ev_tree`) computes from the generated dependency tree; `distfiles` == ordered unique leaves;
  * request returned False or raised  => USE set identical to before;
  * request returned True             => USE set == before | flags (enable) / before - flags (disable);
  * locked flags never change state; rollback(p) restores the set observed when changes_count() was p;
  * a request naming only unlocked flags that no request touched since the last commit must succeed;
  * no exception escapes a request (core.guarded).

Generation: hypothesis draws one 48-bit integer per case and `gen_case` expands it deterministically into
the JSON case (building the nested case with hypothesis strategies cost 25-60 ms per case); minimisation
is done by `shrink_case` (greedy deletion of ops/reads/flags/tree nodes keeping the bucket).

Buckets: `stale-view:commit-in-window` / `stale-view:after-<last USE-changing op>` (read returns the value
of an earlier USE set), `wrong-view:*`, `refused-changed-set:*`, `exception-changed-set:*`,
`success-wrong-set:*`, `rollback:set-not-restored`, `locked-flag-changed`, `possible-refused:*`, crash buckets,
and `useset:noop-change-reverted` = the divergence is exactly a flag that was enabled-while-on /
disabled-while-off in this transaction and got flipped by a rollback (snakeoil LimitedChangeSet defect,
outside /repo; proposed known finding).

Dropped from DESIGN §3 C14: hypothesis RuleBasedStateMachine (a plain JSON op list is used instead);
requests on wrapped attributes (request_enable("depend", atom): dead path, nobody calls it, the
statement's quantifier is about flags).  `force` ops only get the set/view invariants (their own
"restriction now matches" contract is not part of C14).
"""
from __future__ import annotations

from hypothesis import strategies as st

from .. import core

ID = "C14"
TITLE = "USE-configured package views always reflect the current USE set"
LEVEL = "exploration"
TECHNIQUE = "stateful history fuzzing (JSON op lists) against a model USE set + independent dep-tree evaluator"
DESIGN_REF = "DESIGN.md §3 C14"
LEVEL_TEXT = (
    "Generated operation histories (enable/disable of changeable, locked-present and locked-absent flags, "
    "restriction-level force_True/force_False, rollback to recorded points, commit) on real ConfiguredTree "
    "package wrappers, with reads of a generated subset of wrapped attributes after every step; each read is "
    "compared with the raw attribute evaluated under the currently reported USE set and with an "
    "independent evaluation of the generated dependency tree."
)
LEVEL_NOTE = (
    "Trusted: DepSet parsing/evaluate_depset for the string/equality comparison (C09 covers it; the leaf-set "
    "comparison does not rely on it). Search, not proof."
)
RULE = (
    "one hypothesis-drawn integer seeds a generator of a package (7 dependency-style variables with nested USE "
    "conditionals) and a history of 1..14 ops over flags a-d (IUSE), x,y (outside IUSE / explicitly locked); "
    "non-trivial = some attribute is read, then a successful disable, commit or rollback happens, then the same "
    "attribute is read again; distinct = canonical JSON of the whole case"
)
ASSUMPTIONS = [
    "the wrapper is obtained the way ConfiguredTree builds it (configured.tree.package_class) or via make_wrapper directly",
    "rollback points are values previously returned by changes_count() (what restriction code passes)",
    "USE set 'as it was' is observed through the public `use` attribute",
]
BUDGET = {"quick": 50, "thorough": 800}

IUSE_FLAGS = ["a", "b", "c", "d"]
EXTRA_FLAGS = ["x", "y"]
ALL_FLAGS = IUSE_FLAGS + EXTRA_FLAGS
ATTRS = ["depend", "rdepend", "bdepend", "license", "restrict", "required_use", "fetchables", "distfiles"]
KEY2ATTR = {
    "DEPEND": ["depend"],
    "RDEPEND": ["rdepend"],
    "BDEPEND": ["bdepend"],
    "LICENSE": ["license"],
    "RESTRICT": ["restrict"],
    "REQUIRED_USE": ["required_use"],
    "SRC_URI": ["fetchables", "distfiles"],
}

# ---------------------------------------------------------------------------------------------
# dependency trees: ["leaf", s] | ["cond", flag, neg, [kids]] | ["grp", op, [kids]]  (op in "", "||", "^^", "??")


def render(tree):
    out = []
    for n in tree:
        if n[0] == "leaf":
            out.append(n[1])
        elif n[0] == "cond":
            out.append(("!" if n[2] else "") + n[1] + "? ( " + render(n[3]) + " )")
        else:
            out.append((n[1] + " " if n[1] else "") + "( " + render(n[2]) + " )")
    return " ".join(out)


def ev_tree(tree, use):
    """independent evaluation: ordered list of leaves that survive under `use`"""
    out = []
    for n in tree:
        if n[0] == "leaf":
            out.append(n[1])
        elif n[0] == "cond":
            if (n[1] in use) != bool(n[2]):
                out.extend(ev_tree(n[3], use))
        else:
            out.extend(ev_tree(n[2], use))
    return out


KINDS = {
    "DEPEND": "atom",
    "RDEPEND": "atom",
    "BDEPEND": "atom",
    "LICENSE": "license",
    "RESTRICT": "restrict",
    "REQUIRED_USE": "requse",
    "SRC_URI": "uri",
}
_LEAF = {"atom": "x/p%d", "license": "LIC-%d", "restrict": "r%d", "uri": "http://h/f%d.tar"}
# RESTRICT / SRC_URI are parsed by pkgcore with operators={}: a bare "( .. )" group is a parse error there
_GROUPS = {"atom": ["", "||"], "license": ["", "||"], "restrict": [], "uri": [], "requse": ["", "||", "^^", "??"]}


def gen_tree(rnd, kind, depth=0):
    """list of nodes; at least biased to contain conditionals on IUSE flags"""

    def leaf():
        if kind == "requse":
            return ["leaf", ("!" if rnd.random() < 0.4 else "") + rnd.choice(IUSE_FLAGS)]
        return ["leaf", _LEAF[kind] % rnd.randrange(10)]

    def node(d):
        r = rnd.random()
        if d >= 3 or r < 0.45:
            return leaf()
        kids = [node(d + 1) for _ in range(rnd.randint(1, 3))]
        if r < 0.82 or not _GROUPS[kind]:
            return ["cond", rnd.choice(IUSE_FLAGS + ["x"]), rnd.random() < 0.35, kids]
        return ["grp", rnd.choice(_GROUPS[kind]), kids]

    n = rnd.choice([0, 1, 1, 2, 2, 3, 4])
    return [node(0) for _ in range(n)]


def gen_case(seed):
    """the whole case is a deterministic function of one hypothesis-drawn integer"""
    import random

    rnd = random.Random(seed)

    def flags(mx=3):
        return rnd.sample(ALL_FLAGS, rnd.randint(1, mx))

    def reads(mn=0, mx=3):
        return rnd.sample(ATTRS, rnd.randint(mn, mx))

    mode = rnd.choice(["tree", "tree", "direct"])
    trees = {k: gen_tree(rnd, kind) for k, kind in KINDS.items()}
    if mode == "tree":
        immutable = rnd.sample(IUSE_FLAGS, rnd.choice([0, 0, 1, 1, 2]))
        locked = sorted(set(immutable) | set(EXTRA_FLAGS))
    else:
        immutable = []
        locked = rnd.sample(ALL_FLAGS, rnd.randint(0, 3))
    initial = rnd.sample(ALL_FLAGS, rnd.randint(0, 4))
    ops = []
    for _ in range(rnd.randint(1, 14)):
        r = rnd.random()
        if r < 0.17:
            ops.append({"op": "enable", "flags": flags(), "read": reads()})
        elif r < 0.45:
            ops.append({"op": "disable", "flags": flags(), "read": reads()})
        elif r < 0.57:
            ops.append(
                {"op": "force", "flags": flags(), "want": rnd.random() < 0.5, "all": rnd.random() < 0.5,
                 "negate": rnd.random() < 0.5, "read": reads()}
            )
        elif r < 0.68:
            ops.append({"op": "rollback", "k": rnd.randrange(8), "read": reads()})
        elif r < 0.80:
            ops.append({"op": "commit", "read": reads()})
        else:
            ops.append({"op": "read", "read": reads(1, 4)})
    return {
        "mode": mode,
        "trees": trees,
        "immutable": sorted(immutable),
        "locked": sorted(locked),
        "initial": sorted(initial),
        "ops": ops,
    }


def case_strategy():
    return st.integers(0, 2**48).map(gen_case)


# ---------------------------------------------------------------------------------------------
# the system under test


class Env:
    def __init__(self):
        from types import SimpleNamespace as NS

        from pkgcore.ebuild import conditionals
        from pkgcore.ebuild.eapi import get_eapi
        from pkgcore.ebuild.repository import ConfiguredTree
        from pkgcore.package.conditionals import make_wrapper
        from pkgcore.package.metadata import factory
        from pkgcore.repository.util import SimpleTree
        from pkgcore.restrictions import boolean, packages, values
        from pkgcore.test.misc import FakePkgBase, FakeRepo
        from snakeoil import klass
        from snakeoil.sequences import stable_unique

        self.conditionals = conditionals
        self.boolean, self.packages, self.values = boolean, packages, values
        self.FakePkgBase = FakePkgBase
        self.parent = factory(FakeRepo())
        self.eapi = get_eapi("8")
        self.current = (frozenset(), frozenset(), frozenset())
        self.domain = NS(
            get_package_use_unconfigured=lambda pkg: self.current,
            profile=NS(iuse_effective=frozenset()),
            config_dir="/nonexistent",
        )
        self.ctree = ConfiguredTree(SimpleTree({}), self.domain, {"USE": "", "CHOST": "x"})
        wr = {a: klass.alias_method("evaluate_depset") for a in ATTRS if a != "distfiles"}
        wr["distfiles"] = lambda raw, use, pkg: tuple(stable_unique(raw.evaluate_depset(use)))
        self.direct_kls = make_wrapper(NS(repo_id="direct"), "use", wr)

    def build(self, case):
        data = {k: render(t) for k, t in case["trees"].items()}
        src_uri = data["SRC_URI"]
        data.update({"EAPI": "8", "SLOT": "0", "IUSE": " ".join(IUSE_FLAGS)})
        raw = self.FakePkgBase("cat/pkg-1", data=data, repo=self.parent)
        object.__setattr__(raw, "eapi", self.eapi)
        # fetchables needs a manifest; a DepSet over the URI strings exercises the same wrapper path
        object.__setattr__(
            raw, "fetchables", self.conditionals.DepSet.parse(src_uri, str, operators={}, attr="SRC_URI")
        )
        if case["mode"] == "tree":
            self.current = (frozenset(case["immutable"]), frozenset(case["initial"]), frozenset())
            pkg = self.ctree.package_class(raw)
        else:
            pkg = self.direct_kls(
                raw, initial_settings=list(case["initial"]), unchangable_settings=list(case["locked"])
            )
        return raw, pkg

    def leaves(self, obj):
        """flattened leaves of a DepSet as strings (order-insensitive use)"""
        out = []
        stack = list(obj.restrictions) if hasattr(obj, "restrictions") else list(obj)
        while stack:
            n = stack.pop()
            if isinstance(n, self.values.ContainmentMatch):
                out.append(("!" if n.negate else "") + next(iter(n.vals)))
            elif isinstance(n, self.packages.Conditional):
                out.append("<unevaluated-conditional>")  # makes the leaf comparison fail
            elif isinstance(n, self.boolean.base) and not hasattr(n, "cpvstr"):
                stack.extend(n.restrictions)
            else:
                out.append(str(n))
        return out


ATTR2KEY = {a: k for k, attrs in KEY2ATTR.items() for a in attrs}


def run_history(ctx, env, case, record=True):
    raw, pkg = core.guarded(ctx, case, lambda: env.build(case)) or (None, None)
    if pkg is None:
        return
    locked = set(case["locked"])
    trees = case["trees"]

    def cur():
        return set(pkg.use)

    model = cur()
    if model != set(case["initial"]):
        ctx.violation("init:use-differs", case, f"initial use {sorted(model)} != requested {case['initial']}")
    history = {0: set(model)}  # changes_count -> set observed
    touched = set()  # flags named by any request since the last commit
    # LimitedChangeSet (snakeoil) records add-of-a-present / remove-of-an-absent flag as a change and a later
    # rollback *flips* the flag: flags that may be wrongly removed / added by a rollback in this transaction
    ghost_on = set()  # enabled while present
    ghost_off = set()  # disabled while absent
    past_sets = [frozenset(model)]
    last_change = "init"
    read_log = {}  # attr -> step of last read
    change_steps = []  # steps with a successful disable/commit/rollback
    commit_steps = []
    good_read = {}  # attr -> step of the last read that returned the right value
    nontrivial = False
    classes = set()
    classes.add("mode_" + case["mode"])

    def diverged(kind, step, expected, actual, extra=""):
        add, lost = actual - expected, expected - actual
        res = add <= ghost_off and lost <= ghost_on
        b = "useset:noop-change-reverted" if res else kind
        ctx.violation(b, case, f"step {step} {extra}: USE set {sorted(actual)} expected {sorted(expected)}")

    def check_reads(step, attrs):
        nonlocal nontrivial
        use = cur()
        for a in attrs:
            key = ATTR2KEY[a]
            if a in read_log and any(read_log[a] < s <= step for s in change_steps):
                nontrivial = True
            commit_in_window = any(good_read.get(a, -1) < s <= step for s in commit_steps)
            read_log[a] = step
            got = core.guarded(ctx, case, lambda a=a: getattr(pkg, a))
            if core.crashed(got):
                continue
            exp_leaves = ev_tree(trees[key], use)
            if a == "distfiles":
                exp = []
                for u in exp_leaves:
                    f = u.rsplit("/", 1)[1]
                    if f not in exp:
                        exp.append(f)
                ok = tuple(got) == tuple(exp)
                got_s, exp_s = list(got), exp
            else:
                ref = getattr(raw, a).evaluate_depset(frozenset(use))
                gl = sorted(env.leaves(got))
                ok = (got == ref) and (str(got) == str(ref)) and gl == sorted(exp_leaves)
                got_s, exp_s = str(got), str(ref)
            if ok:
                good_read[a] = step
            else:
                # stale (value of an earlier USE set) or plain wrong?
                stale = False
                for old in past_sets:
                    if a == "distfiles":
                        o = []
                        for u in ev_tree(trees[key], old):
                            f = u.rsplit("/", 1)[1]
                            if f not in o:
                                o.append(f)
                        stale = tuple(got) == tuple(o)
                    else:
                        stale = sorted(env.leaves(got)) == sorted(ev_tree(trees[key], old))
                    if stale:
                        break
                why = "commit-in-window" if commit_in_window else f"after-{last_change}"
                b = f"stale-view:{why}" if stale else f"wrong-view:{why}"
                ctx.violation(
                    b, case, f"step {step}: {a} reads {got_s!r}, under use={sorted(use)} it is {exp_s!r}"
                )

    for step, op in enumerate(case["ops"]):
        kind = op["op"]
        before = cur()
        if before != model:  # only possible after an already-reported divergence; resync
            model = set(before)
        if kind in ("enable", "disable"):
            flags = list(op["flags"])
            fn = pkg.request_enable if kind == "enable" else pkg.request_disable
            res = core.guarded(ctx, case, lambda: fn("use", *flags))
            after = cur()
            fs = set(flags)
            if len(flags) > 1:
                classes.add("multi_flag")
            if fs & locked:
                classes.add("locked_" + kind)
                if kind == "disable" and any(f in locked and f not in before for f in flags):
                    classes.add("locked_absent_disable")
                if kind == "enable" and any(f in locked and f in before for f in flags):
                    classes.add("locked_present_enable")
            fresh = not (fs & locked) and not (fs & touched)
            if kind == "enable":
                ghost_on |= fs & before
            else:
                ghost_off |= fs - before
            if core.crashed(res):
                classes.add("raised")
                if after != before:
                    diverged(f"exception-changed-set:{kind}", step, before, after, f"{kind}{flags} raised")
                    last_change = "failed-" + kind
            elif res:
                exp = before | fs if kind == "enable" else before - fs
                if after != exp:
                    diverged(f"success-wrong-set:{kind}", step, exp, after, f"{kind}{flags} returned True")
                if kind == "disable":
                    change_steps.append(step)
                    classes.add("disable_ok")
                else:
                    classes.add("enable_ok")
                if after != before:
                    last_change = kind
                    classes.add(kind + "_changed_set")
            else:
                classes.add("refused")
                if after != before:
                    diverged(f"refused-changed-set:{kind}", step, before, after, f"{kind}{flags} returned False")
                    last_change = "refused-" + kind
                if fresh:
                    ctx.violation(
                        f"possible-refused:{kind}", case,
                        f"step {step}: {kind}{flags} refused although flags are unlocked and untouched since commit",
                    )
            touched |= fs
            ch = (after ^ before) & locked
            if ch:
                ctx.violation("locked-flag-changed", case, f"step {step}: {kind}{flags} changed locked {sorted(ch)}")
        elif kind == "force":
            flags = list(op["flags"])
            r = env.packages.PackageRestriction(
                "use", env.values.ContainmentMatch(frozenset(flags), match_all=op["all"], negate=op["negate"])
            )
            fn = r.force_True if op["want"] else r.force_False
            res = core.guarded(ctx, case, lambda: fn(pkg))
            after = cur()
            fs = set(flags)
            classes.add("force")
            ghost_on |= fs & before
            ghost_off |= fs - before
            if core.crashed(res):
                classes.add("raised")
                if after != before:
                    diverged("exception-changed-set:force", step, before, after, f"force{flags} raised")
                    last_change = "failed-force"
            elif res:
                if (after ^ before) - fs:
                    ctx.violation("force:unrelated-flag-changed", case, f"step {step}: {sorted((after ^ before) - fs)}")
                if after != before:
                    last_change = "force"
                    classes.add("force_changed_set")
                    if before - after:
                        change_steps.append(step)
            else:
                classes.add("force_refused")
                if after != before:
                    diverged("refused-changed-set:force", step, before, after, f"force{flags} returned False")
                    last_change = "refused-force"
            touched |= fs
            ch = (after ^ before) & locked
            if ch:
                ctx.violation("locked-flag-changed", case, f"step {step}: force{flags} changed locked {sorted(ch)}")
        elif kind == "rollback":
            pts = sorted(history)
            p = pts[op["k"] % len(pts)]
            res = core.guarded(ctx, case, lambda: pkg.rollback(p))
            after = cur()
            classes.add("rollback")
            if not core.crashed(res):
                exp = history[p]
                if after != exp:
                    diverged("rollback:set-not-restored", step, exp, after, f"rollback({p})")
                c = pkg.changes_count()
                if c != p:
                    ctx.violation("rollback:count", case, f"step {step}: changes_count()={c} after rollback({p})")
                if after != before:
                    last_change = "rollback"
                    classes.add("rollback_changed_set")
                change_steps.append(step)
        elif kind == "commit":
            res = core.guarded(ctx, case, lambda: pkg.commit())
            after = cur()
            classes.add("commit")
            if not core.crashed(res):
                if after != before:
                    diverged("commit:changed-set", step, before, after, "commit()")
                c = pkg.changes_count()
                if c != 0:
                    ctx.violation("commit:count", case, f"step {step}: changes_count()={c} after commit")
                history = {}
                touched = set()
                ghost_on = set()
                ghost_off = set()
                change_steps.append(step)
                commit_steps.append(step)
        elif kind == "read":
            after = before
        else:
            raise core.HarnessError(f"unknown op {kind}")
        model = set(after)
        c = pkg.changes_count()
        history = {k: v for k, v in history.items() if k < c}
        history[c] = set(after)
        if frozenset(after) not in past_sets:
            past_sets.append(frozenset(after))
        check_reads(step, op.get("read", ()))
    # final full read
    check_reads(len(case["ops"]), ATTRS)
    if record:
        if nontrivial:
            classes.add("read_change_read")
        ctx.case(case, nontrivial=nontrivial, classes=sorted(classes))


def _kids(node):
    return node[3] if node[0] == "cond" else node[2] if node[0] == "grp" else None


def _node_paths(tree, prefix=()):
    for i, n in enumerate(tree):
        yield prefix + (i,)
        k = _kids(n)
        if k is not None:
            yield from _node_paths(k, prefix + (i,))


def _edit(tree, path, how):
    lst = tree
    for i in path[:-1]:
        lst = _kids(lst[i])
    i = path[-1]
    if how == "delete":
        if len(lst) == 1 and len(path) > 1:
            return False  # would leave an empty group (parse error)
        del lst[i]
        return True
    k = _kids(lst[i])
    if k is None:
        return False
    lst[i : i + 1] = k
    return True


def plan(tier, seed):
    if tier == "quick":
        return [{"task": "hist", "examples": 600} for _ in range(16)]
    return [{"task": "hist", "examples": 15000} for _ in range(16)]


def run_task(ctx, task, **kw):
    if task != "hist":
        raise core.HarnessError(f"unknown task {task}")
    env = Env()
    chunk = 100 if ctx.tier == "quick" else 1000
    # the first chunk always runs (a slow start on a loaded machine must not make the run vacuous);
    # the wall-clock guard applies to everything after it
    deadline, ctx.deadline = ctx.deadline, None
    done = core.hyp_run(ctx, case_strategy(), lambda c: run_history(ctx, env, c), min(chunk, kw["examples"]), chunk=chunk, seed_salt=7)
    ctx.deadline = deadline
    core.hyp_run(ctx, case_strategy(), lambda c: run_history(ctx, env, c), kw["examples"] - done, chunk=chunk)


def replay(ctx, case):
    run_history(ctx, Env(), case)


def shrink_case(ctx, bucket, case):
    """greedy ddmin over ops, reads, trees and flags keeping the bucket"""
    env = Env()

    def hits(c):
        sub = core.Ctx(ID, ctx.tier, ctx.seed)
        try:
            run_history(sub, env, c, record=False)
        except Exception:  # noqa: BLE001
            return False
        return bucket in sub.violations

    import copy

    cur = copy.deepcopy(case)
    if not hits(cur):
        return None
    changed = True
    while changed:
        changed = False
        # drop ops
        i = 0
        while i < len(cur["ops"]):
            c = copy.deepcopy(cur)
            del c["ops"][i]
            if c["ops"] and hits(c):
                cur = c
                changed = True
            else:
                i += 1
        # shrink reads / flags
        for i, op in enumerate(cur["ops"]):
            for fld in ("read", "flags"):
                j = 0
                while fld in op and j < len(cur["ops"][i][fld]):
                    c = copy.deepcopy(cur)
                    del c["ops"][i][fld][j]
                    if (fld == "read" or c["ops"][i][fld]) and hits(c):
                        cur = c
                        changed = True
                    else:
                        j += 1
        # trees: empty them, then delete nodes / hoist children at any depth
        for k in list(cur["trees"]):
            if not cur["trees"][k]:
                continue
            c = copy.deepcopy(cur)
            c["trees"][k] = []
            if hits(c):
                cur = c
                changed = True
                continue
            progress = True
            while progress:
                progress = False
                for path in _node_paths(cur["trees"][k]):
                    for how in ("delete", "hoist"):
                        c = copy.deepcopy(cur)
                        if not _edit(c["trees"][k], path, how):
                            continue
                        if hits(c):
                            cur = c
                            changed = progress = True
                            break
                    if progress:
                        break
        for fld in ("initial", "immutable", "locked"):
            j = 0
            while j < len(cur[fld]):
                c = copy.deepcopy(cur)
                del c[fld][j]
                if c["mode"] == "tree" and fld == "immutable":
                    c["locked"] = sorted(set(c["immutable"]) | set(EXTRA_FLAGS))
                if c["mode"] == "tree" and fld == "locked":
                    j += 1
                    continue
                if hits(c):
                    cur = c
                    changed = True
                else:
                    j += 1
    return cur
