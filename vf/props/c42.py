"""C42 Package move updates follow move chains in file order.

Generated: a `profiles/updates` directory with 1..6 quarter files `[1-4]Q-YYYY` (years chosen so that the
lexical order of the names differs from the chronological one), created on disk in shuffled order, plus
sometimes a misnamed file that must be ignored.  Lines: `move` (chains, cycles, self moves, redundant moves
of an already moved name), `slotmove` (plain and versioned atoms), and malformed lines (bad arity, unknown
command, empty line, versioned move atoms with and without operator, non-atoms, slotted slotmove atom,
invalid slot name).

Oracle: an independent sequential reference (`reference`) that reads the files chronologically (year, then
quarter: the order PMS prescribes for quarter files) and keeps, for every name, the ordered list of
original names whose chain of moves currently ends there ("followers"); every accepted command is appended
to the list of each follower of its source.  A name that was a move source is finished: later commands
with that source are redundant and ignored (the statement's redundancy clause; pkgcore applies it to
slotmoves as well and so does the reference).  Expected mapping == read_updates() mapping, compared as
(command, str(atom), str(atom-or-slot)) with empty lists dropped.

Diagnosis: when the result equals the reference run with *lexically* sorted files the bucket is
`file-order:lexical-not-chronological`; exceptions escaping read_updates are crash buckets.

Not generated (meaning not fixed by the statement/PMS text I could ground): leading/trailing/multiple blanks
(pkgcore logs an error but processes the line), blockers / repo ids / USE deps / slotted atoms in `move`.
EAPI 8 free-form file names are not generated (their order is not fixed by the statement).
"""
from __future__ import annotations

import os
import random

from hypothesis import strategies as st

from .. import core

ID = "C42"
TITLE = "Package move updates follow move chains in file order"
LEVEL = "exploration"
TECHNIQUE = "differential vs. sequential follower-set reference on generated update directories"
DESIGN_REF = "DESIGN.md §3 C42"
LEVEL_TEXT = (
    "Generated update directories (quarter-named files whose lexical and chronological orders differ, move chains, "
    "cycles, redundant moves, slotmoves, malformed lines) read through pkg_updates.read_updates and compared with an "
    "independent sequential reference."
)
LEVEL_NOTE = "Trusted: the reference model in this module and atom() for rendering accepted atoms. Search, not proof."
RULE = (
    "one integer drawn by hypothesis seeds a generator of 1..6 quarter files x 0..6 lines over 6 package names; "
    "non-trivial = the expected mapping has a name that receives a command whose source is another name (a followed "
    "chain); distinct = canonical JSON of the files"
)
ASSUMPTIONS = [
    "quarter files are processed chronologically (year, quarter) - PMS / upstream package managers",
    "a name that was a move source takes no further commands (moves and slotmoves) - the redundancy clause",
]
BUDGET = {"quick": 50, "thorough": 800}

NAMES = ["c/a", "c/b", "c/c", "d/a", "d/e", "e/f-g"]
QUARTERS = [f"{q}Q-{y}" for y in (2018, 2019, 2020, 2021) for q in (1, 2, 3, 4)]
MISNAMED = ["frobnicate", "5Q-2020", "1Q-20", "1q-2020", "1Q-2020.bak", "Q1-2020"]
SLOTS = ["0", "1", "2", "1.2", "stable"]


def chrono_key(name):
    q, y = name.split("Q-")
    return (int(y), int(q))


# ---- generator --------------------------------------------------------------------------------


def gen_case(seed):
    rnd = random.Random(seed)
    nfiles = rnd.choice([1, 2, 2, 3, 3, 4, 5, 6])
    names = rnd.sample(QUARTERS, nfiles)
    pool = NAMES[: rnd.choice([3, 4, 6])]
    garbage_ok = rnd.random() < 0.12  # lines whose atoms do not parse at all (kept rare: they mask the rest)
    files = []
    for fn in names:
        lines = []
        for _ in range(rnd.choice([0, 1, 2, 2, 3, 3, 4, 6])):
            r = rnd.random()
            if r < 0.55:
                a, b = rnd.choice(pool), rnd.choice(pool)
                lines.append(f"move {a} {b}")
            elif r < 0.80:
                a = rnd.choice(pool)
                if rnd.random() < 0.25:
                    a = rnd.choice([">=", "=", "<"]) + a + "-" + rnd.choice(["1", "2.0", "1-r1"])
                lines.append(f"slotmove {a} {rnd.choice(SLOTS)} {rnd.choice(SLOTS)}")
            else:
                a, b = rnd.choice(pool), rnd.choice(pool)
                kinds = ["arity_move", "arity_move2", "arity_slot", "unknown", "empty", "ver_src", "ver_trg", "slotted_slotmove"]
                if garbage_ok:
                    kinds += ["bare_ver", "nonatom", "bad_slot"]
                k = rnd.choice(kinds)
                lines.append(
                    {
                        "arity_move": f"move {a}",
                        "arity_move2": f"move {a} {b} {b}",
                        "arity_slot": f"slotmove {a} 0",
                        "unknown": f"rename {a} {b}",
                        "empty": "",
                        "ver_src": f"move ={a}-1 {b}",
                        "ver_trg": f"move {a} ={b}-1",
                        "slotted_slotmove": f"slotmove {a}:0 0 1",
                        "bare_ver": f"move {a} {b}-1",
                        "nonatom": f"move {a.split('/')[1]} {b}",
                        "bad_slot": f"slotmove {a} 0 a*b",
                    }[k]
                )
        files.append([fn, lines])
    mis = []
    if rnd.random() < 0.25:
        mis = [[rnd.choice(MISNAMED), [f"move {rnd.choice(pool)} {rnd.choice(pool)}"]]]
    return {"eapi": rnd.choice(["0", "5", "7"]), "files": files, "misnamed": mis}


def case_strategy():
    return st.integers(0, 2**48).map(gen_case)


# ---- reference ---------------------------------------------------------------------------------

import re

_QPN = re.compile(r"^[A-Za-z0-9_][A-Za-z0-9+_.-]*/[A-Za-z0-9_][A-Za-z0-9+_-]*$")
_VERSIONED = re.compile(r"^(>=|<=|=|<|>|~)([A-Za-z0-9_][A-Za-z0-9+_.-]*/[A-Za-z0-9_][A-Za-z0-9+_-]*?)-(\d+(\.\d+)*(-r\d+)?)$")
_SLOT = re.compile(r"^[A-Za-z0-9_][A-Za-z0-9+_.-]*$")


def _pkg_ends_in_version(qpn):
    # PMS: a package name must not end in a hyphen followed by something that looks like a version
    return re.search(r"-\d+(\.\d+)*[a-z]?(_(alpha|beta|pre|rc|p)\d*)*(-r\d+)?$", qpn.split("/", 1)[1]) is not None


def classify_line(line):
    """-> ("move", src, trg) | ("slotmove", key, srcspec, s1, s2) | ("bad", why)"""
    t = line.split()
    if not t:
        return ("bad", "empty")
    if t[0] == "move":
        if len(t) != 3:
            return ("bad", "arity")
        for x in t[1:]:
            if _VERSIONED.match(x):
                return ("bad", "versioned")
            if not _QPN.match(x) or _pkg_ends_in_version(x):
                return ("bad", "garbage")
        return ("move", t[1], t[2])
    if t[0] == "slotmove":
        if len(t) != 4:
            return ("bad", "arity")
        spec = t[1]
        if ":" in spec:
            return ("bad", "slotted")
        m = _VERSIONED.match(spec)
        key = m.group(2) if m else spec
        if not _QPN.match(key) or (not m and _pkg_ends_in_version(key)):
            return ("bad", "garbage")
        if not _SLOT.match(t[2]) or not _SLOT.match(t[3]):
            return ("bad", "garbage")
        return ("slotmove", key, spec, t[2], t[3])
    return ("bad", "unknown")


def reference(files, order_key):
    followers = {}
    moved = set()
    cmds = {}
    info = {"classes": set(), "followed": False}

    def fol(n):
        if n not in followers:
            followers[n] = [n]
        return followers[n]

    for fn, lines in sorted(files, key=lambda f: order_key(f[0])):
        for line in lines:
            c = classify_line(line)
            if c[0] == "bad":
                info["classes"].add("malformed_" + c[1])
                continue
            if c[0] == "move":
                _, s, t = c
                if s in moved:
                    info["classes"].add("redundant_move")
                    continue
                f = list(fol(s))
                for x in f:
                    cmds.setdefault(x, []).append(("move", s, t))
                    if x != s:
                        info["followed"] = True
                        info["classes"].add("chain")
                if s == t:
                    info["classes"].add("self_move")
                elif t in moved:
                    info["classes"].add("move_back_into_moved_name")
                followers[s] = []
                tf = fol(t)
                for x in f:
                    if x not in tf:
                        tf.append(x)
                moved.add(s)
            else:
                _, key, spec, s1, s2 = c
                if key in moved:
                    info["classes"].add("redundant_slotmove")
                    continue
                for x in fol(key):
                    cmds.setdefault(x, []).append(("slotmove", f"{spec}:{s1}", s2))
                    if x != key:
                        info["followed"] = True
                        info["classes"].add("slotmove_after_target")
                if spec != key:
                    info["classes"].add("versioned_slotmove")
    return {k: v for k, v in cmds.items() if v}, info


# ---- check -------------------------------------------------------------------------------------


class Env:
    def __init__(self, ctx):
        import logging

        logging.getLogger("pkgcore").setLevel(logging.CRITICAL)  # malformed lines are logged as errors
        from pkgcore.ebuild import pkg_updates
        from pkgcore.ebuild.eapi import get_eapi

        self.read_updates = pkg_updates.read_updates
        self.get_eapi = get_eapi
        self.dir = ctx.fresh_dir("updates")

    def materialise(self, case):
        for f in os.listdir(self.dir):
            os.unlink(os.path.join(self.dir, f))
        allf = [(fn, lines) for fn, lines in case["files"]] + [(fn, lines) for fn, lines in case["misnamed"]]
        # creation order: shuffled deterministically (readdir order is the filesystem's business anyway)
        rnd = random.Random(len(allf) * 7919 + sum(len(l) for _, l in allf))
        rnd.shuffle(allf)
        for fn, lines in allf:
            with open(os.path.join(self.dir, fn), "w") as f:
                f.write("".join(l + "\n" for l in lines))


def check(ctx, env, case, record=True):
    files = [(fn, list(lines)) for fn, lines in case["files"]]
    exp, info = reference(files, chrono_key)
    lex, _ = reference(files, lambda n: n)
    classes = set(info["classes"])
    names = [fn for fn, _ in files]
    if sorted(names) != sorted(names, key=chrono_key):
        classes.add("lexical_differs_from_chronological")
    if exp != lex:
        classes.add("file_order_matters")
    if case["misnamed"]:
        classes.add("misnamed_file")
    if any(c.startswith("malformed_garbage") for c in classes):
        classes.add("unparsable_atom")
    if record:
        ctx.case(case, nontrivial=info["followed"], classes=sorted(classes), key=core.jdump(case["files"]))
    env.materialise(case)
    got = core.guarded(ctx, case, lambda: env.read_updates(env.dir, env.get_eapi(case["eapi"])))
    if core.crashed(got):
        return
    gotn = {}
    for k, v in got.items():
        gotn[k] = [(c[0], str(c[1]), str(c[2])) for c in v]
    if gotn == exp:
        return
    if gotn == lex:
        ctx.violation(
            "file-order:lexical-not-chronological", case,
            f"read_updates processed files in lexical order: got {_fmt(gotn)}; chronological order gives {_fmt(exp)}",
        )
        return
    # diagnose
    what = []
    for k in sorted(set(gotn) | set(exp)):
        g, e = gotn.get(k, []), exp.get(k, [])
        if g == e:
            continue
        if [x for x in g if x in e] == g and len(g) < len(e):
            what.append("missing-command")
        elif [x for x in e if x in g] == e and len(g) > len(e):
            what.append("extra-command")
        elif sorted(g) == sorted(e):
            what.append("command-order")
        else:
            what.append("different-commands")
    b = "chain:" + "+".join(sorted(set(what)))
    ctx.violation(b, case, f"got {_fmt(gotn)} expected {_fmt(exp)}")


def _fmt(d):
    return "{" + "; ".join(f"{k}: " + ", ".join(" ".join(c) for c in v) for k, v in sorted(d.items())) + "}"


def plan(tier, seed):
    if tier == "quick":
        return [{"task": "gen", "examples": 1000} for _ in range(16)]
    return [{"task": "gen", "examples": 30000} for _ in range(16)]


def run_task(ctx, task, **kw):
    if task != "gen":
        raise core.HarnessError(f"unknown task {task}")
    env = Env(ctx)
    chunk = 200 if ctx.tier == "quick" else 2000
    # the first chunk always runs (a slow start on a loaded machine must not make the run vacuous);
    # the wall-clock guard applies to everything after it
    deadline, ctx.deadline = ctx.deadline, None
    done = core.hyp_run(ctx, case_strategy(), lambda c: check(ctx, env, c), min(chunk, kw["examples"]), chunk=chunk, seed_salt=7)
    ctx.deadline = deadline
    core.hyp_run(ctx, case_strategy(), lambda c: check(ctx, env, c), kw["examples"] - done, chunk=chunk)


def replay(ctx, case):
    check(ctx, Env(ctx), case)


def shrink_case(ctx, bucket, case):
    import copy

    env = Env(ctx)

    def hits(c):
        sub = core.Ctx(ID, ctx.tier, ctx.seed)
        check(sub, env, c, record=False)
        return bucket in sub.violations

    cur = copy.deepcopy(case)
    cur["misnamed"] = cur["misnamed"] if not hits(dict(cur, misnamed=[])) else []
    if not hits(cur):
        return None
    changed = True
    while changed:
        changed = False
        i = 0
        while i < len(cur["files"]):
            c = copy.deepcopy(cur)
            del c["files"][i]
            if c["files"] and hits(c):
                cur, changed = c, True
            else:
                i += 1
        for i in range(len(cur["files"])):
            j = 0
            while j < len(cur["files"][i][1]):
                c = copy.deepcopy(cur)
                del c["files"][i][1][j]
                if hits(c):
                    cur, changed = c, True
                else:
                    j += 1
    return cur
