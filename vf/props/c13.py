"""C13 Package visibility follows mask, keyword and license configuration.

Generated: a fake repository of five packages (random KEYWORDS / LICENSE / slots), a 1-2 node profile
stack (ACCEPT_KEYWORDS, ACCEPT_LICENSE, package.mask incl. `-atom` removals, package.unmask,
package.accept_keywords), repository masks, a user config dir (package.mask, package.unmask,
package.accept_keywords with specific / `~arch` / `*` / `~*` / `**` / empty entries, package.license with names,
`@group`, `-@group`, `*`, `-*`), make.conf-style ACCEPT_LICENSE / ACCEPT_KEYWORDS and a license_groups file whose
nesting depth (0-3), listing order (outer-first / inner-first / mixed) and sibling groups are generated.
A real `domain` is built over it (vf/gen/domaincfg.py).

Oracle: a reference evaluator that follows the property statement literally:
  visible  <=>  not (masked and not unmasked)  and  keyword accepted  and  LICENSE formula satisfiable,
compared with membership in `domain.filter_repo(repo)` for every package.  On a disagreement the three
components are asked separately (mask-only filter, `domain._pkg_filters()` restrictions) to name the bucket.
Atom/glob matching is a hand-written table, license acceptance is the last-mention-wins model of C12, the
LICENSE formula is evaluated directly (no DNF).

Mask stacking: repository masks, then profile nodes parent-first (a `-atom` line removes an identical atom
stacked earlier, from a parent node or from the repository list -- portage/PMS stacking, which pkgcore follows),
then the user's package.mask; any matching unmask (profile or user) wins.

Kept inside what the statement fixes: no negated keywords in ACCEPT_KEYWORDS / package.accept_keywords, no
profile package.keywords, no duplicate token inside one line (pkgcore de-duplicates lines with stable_unique),
ACCEPT_KEYWORDS always contains ARCH and never a testing keyword without its stable form, ACCEPT_LICENSE is always defined somewhere, no USE-conditional LICENSE.
"""
import shutil

from .. import core
from ..gen import domaincfg
from .c12 import ref_member

ID = "C13"
TITLE = "Package visibility follows mask, keyword and license configuration"
LEVEL = "exploration"
TECHNIQUE = "differential vs. reference visibility evaluator over generated repos + profile/user configuration through a real domain"
DESIGN_REF = "DESIGN.md §3 C13"
LEVEL_TEXT = (
    "Generated-input search: random small repositories and random profile/user configurations (masks, unmasks, "
    "keyword and license entries, license groups); for every package the membership in domain.filter_repo(repo) is "
    "compared with a reference evaluator written from the property statement."
)
LEVEL_NOTE = "Trusted: the reference evaluator in this module (and ref_member of c12.py), the hand-written atom match table. No proof of absence."
RULE = (
    "configs over 5 packages x 15 key shapes; non-trivial = the configuration has entries of >=2 different kinds "
    "(mask/unmask/keyword entry/license entry/global glob keyword/license group) and the repository has both visible and "
    "invisible packages under the reference; distinct = distinct spec"
)
ASSUMPTIONS = [
    "profile package.mask '-atom' removes an identical atom inherited from a parent node or from the repository's own mask list (PMS / portage stacking)",
    "an empty package.accept_keywords entry means ~ARCH when ~ARCH is not globally accepted, nothing otherwise",
    "'*', '~*', '**' have the stated meaning in ACCEPT_KEYWORDS as well as in package.accept_keywords",
    "ACCEPT_LICENSE is the concatenation profile make.defaults + make.conf, then matching package.license lines in file order",
]
BUDGET = {"quick": 50, "thorough": 900}

ARCH = "x86"
PKGS = [("cat/pa-1", "0"), ("cat/pa-2", "1"), ("cat/pb-1", "0"), ("oth/pc-1", "0"), ("oth/pc-2", "0")]
# key -> indexes of matching packages (hand-written); "user" keys are only valid in the user config (parse_match)
KEYS = {
    "cat/pa": {0, 1},
    "=cat/pa-1": {0},
    ">=cat/pa-2": {1},
    "cat/pa:1": {1},
    "<cat/pa-3": {0, 1},
    "cat/pb": {2},
    "=cat/pb-1*": {2},
    "oth/pc": {3, 4},
    "=oth/pc-2": {4},
    "<oth/pc-2": {3},
    "~oth/pc-1": {3},
}
USER_KEYS = dict(KEYS)
USER_KEYS.update({
    "*/*": {0, 1, 2, 3, 4},
    "cat/*": {0, 1, 2},
    "oth/*": {3, 4},
    "*/pa": {0, 1},
    "cat/pa::fake": {0, 1},
    "cat/pb::other": set(),
})
PROFILE_KEYS = sorted(KEYS)
ALL_USER_KEYS = sorted(USER_KEYS)

LIC = ["GPL-2", "MIT", "BSD", "EULA", "CC0"]
GROUPS = ["FREE", "FREE", "L1", "L2", "EULAS", "ALL"]  # names from domaincfg.gen_license_group_defs (FREE = outermost)
LICENSE_STRINGS = [
    "GPL-2", "MIT", "EULA", "CC0", "MIT BSD", "GPL-2 EULA", "|| ( MIT EULA )", "|| ( EULA CC0 )",
    "GPL-2 || ( BSD EULA )", "|| ( ( MIT BSD ) EULA )", "|| ( ( GPL-2 EULA ) ( CC0 BSD ) )", "",
]
KEYWORD_SETS = [
    "x86", "~x86", "x86 ~amd64", "~x86 ~amd64", "amd64", "~amd64", "amd64 ~x86", "-* ~amd64", "-* x86", "", "-x86 amd64",
]


# ---------------------------------------------------------------- reference

def parse_license(s):
    """LICENSE string -> nested ('all', [...]) / ('any', [...]) / name"""
    toks = s.split()
    pos = 0

    def group(kind):
        nonlocal pos
        items = []
        while pos < len(toks):
            t = toks[pos]
            if t == ")":
                pos += 1
                return (kind, items)
            if t == "||":
                assert toks[pos + 1] == "("
                pos += 2
                items.append(group("any"))
            elif t == "(":
                pos += 1
                items.append(group("all"))
            else:
                pos += 1
                items.append(t)
        return (kind, items)

    return group("all")


def license_ok(node, accepted):
    if isinstance(node, str):
        return accepted(node)
    kind, items = node
    if kind == "all":
        return all(license_ok(i, accepted) for i in items)
    return (not items) or any(license_ok(i, accepted) for i in items)


def group_closure(text):
    raw = {}
    for line in text.splitlines():
        p = line.split()
        if p and not p[0].startswith("#"):
            raw[p[0]] = p[1:]

    def cl(n, seen=()):
        out = set()
        for m in raw.get(n, ()):
            if m.startswith("@"):
                if m[1:] not in seen and m[1:] in raw:
                    out |= cl(m[1:], seen + (n,))
            else:
                out.add(m)
        return out

    return {n: cl(n) for n in raw}


def _lines(text):
    return [l.split() for l in text.splitlines() if l.strip() and not l.strip().startswith("#")]


def _conf_text(spec, name):
    v = (spec.get("conf") or {}).get(name, "")
    if isinstance(v, dict):
        return "".join(v[k] for k in sorted(v))
    return v


class Ref:
    """reference evaluation of one spec"""

    def __init__(self, spec):
        self.spec = spec
        nodes = spec["profiles"]
        # ---- masks
        # repository masks (profiles/package.mask of the repo) sit below the profile stack: a profile's
        # `-atom` line removes an identical atom stacked earlier, be it from a parent node or from the repo
        stacked = [("repo", a) for a in spec.get("repo_masks", ())]
        for n in nodes:
            for l in _lines(n.get("package.mask", "")):
                a = l[0]
                if a.startswith("-"):
                    stacked = [(src, m) for src, m in stacked if m != a[1:]]
                elif ("profile", a) not in stacked:
                    stacked.append(("profile", a))
        prof_unmasks = []
        for n in nodes:
            for l in _lines(n.get("package.unmask", "")):
                a = l[0]
                if a.startswith("-"):
                    prof_unmasks = [m for m in prof_unmasks if m != a[1:]]
                else:
                    prof_unmasks.append(a)
        self.masks = {
            "repo": [m for src, m in stacked if src == "repo"],
            "profile": [m for src, m in stacked if src == "profile"],
            "user": [l[0] for l in _lines(_conf_text(spec, "package.mask"))],
        }
        self.unmasks = {"profile": prof_unmasks, "user": [l[0] for l in _lines(_conf_text(spec, "package.unmask"))]}
        # ---- keywords
        ak = []
        for n in nodes:
            ak += n.get("_ACCEPT_KEYWORDS", "").split()
        ak += (spec.get("settings") or {}).get("ACCEPT_KEYWORDS", "").split()
        self.global_kw = ak
        self.stable_system = ("~" + ARCH) not in ak
        self.kw_entries = [("user", l[0], l[1:]) for l in _lines(_conf_text(spec, "package.accept_keywords"))]
        for n in nodes:
            self.kw_entries += [("profile", l[0], l[1:]) for l in _lines(n.get("package.accept_keywords", ""))]
        # ---- licenses
        self.closure = group_closure(spec.get("license_groups") or "")
        self.lic_profile = []
        for n in nodes:
            self.lic_profile += n.get("_ACCEPT_LICENSE", "").split()
        self.lic_conf = (spec.get("settings") or {}).get("ACCEPT_LICENSE", "").split()
        self.lic_entries = [(l[0], l[1:]) for l in _lines(_conf_text(spec, "package.license"))]

    # masks
    def mask_state(self, idx):
        by = [src for src in ("repo", "profile", "user") if any(idx in USER_KEYS[m] for m in self.masks[src])]
        un = [src for src in ("profile", "user") if any(idx in USER_KEYS[m] for m in self.unmasks[src])]
        return bool(by) and not un, by, un

    # keywords
    def keyword_state(self, idx):
        """(accepted, reason)"""
        kws = self.spec["pkgs"][idx]["keywords"].split()
        sources = [("global", t) for t in self.global_kw]
        for src, key, toks in self.kw_entries:
            if idx in USER_KEYS[key]:
                if not toks:
                    if self.stable_system:
                        sources.append((f"{src}-empty" + ("-global" if key == "*/*" else ""), "~" + ARCH))
                else:
                    sources += [(f"{src}-entry", t) for t in toks]
        for src, t in sources:
            if t == "**":
                return True, f"{src}:**"
        for src, t in sources:
            if t == "*" and any(k[0] not in "-~" for k in kws):
                return True, f"{src}:*"
            if t == "~*" and any(k[0] == "~" for k in kws):
                return True, f"{src}:~*"
        for src, t in sources:
            if t in kws and t not in ("*", "~*", "**"):
                return True, f"{src}:keyword"
        return False, "none"

    # licenses
    def license_tokens(self, idx):
        toks = [("profile", t) for t in self.lic_profile] + [("conf", t) for t in self.lic_conf]
        for key, t in self.lic_entries:
            if idx in USER_KEYS[key]:
                toks += [("entry", x) for x in t]
        return toks

    def license_state(self, idx):
        toks = self.license_tokens(idx)
        plain = [t for _, t in toks]
        expand = lambda g: self.closure.get(g, set())  # noqa: E731
        tree = parse_license(self.spec["pkgs"][idx]["license"])
        names = set(_names(tree))

        def accepted(l):
            return ref_member(l, plain, (), expand=expand, star=names)

        return license_ok(tree, accepted), names, accepted

    def visible(self, idx):
        masked, _, _ = self.mask_state(idx)
        return (not masked) and self.keyword_state(idx)[0] and self.license_state(idx)[0]


def _names(node):
    if isinstance(node, str):
        yield node
    else:
        for i in node[1]:
            yield from _names(i)


def _license_feature(ref, idx):
    """which kind of token decides the licenses the package needs (coarse, for the bucket name)"""
    toks = ref.license_tokens(idx)
    _, names, _ = ref.license_state(idx)
    if any(t.startswith("-") for s, t in toks if s == "profile"):
        # negations in the profile's ACCEPT_LICENSE are the suspicious construct
        return "profile-negation"
    feats = set()
    for l in sorted(names):
        for src, t in reversed(toks):
            kind = None
            if t == "-*":
                kind = "-*"
            elif t == "*":
                kind = "*"
            elif t.startswith("-@"):
                kind = "-@group" if l in ref.closure.get(t[2:], ()) else None
            elif t.startswith("@"):
                kind = "@group" if l in ref.closure.get(t[1:], ()) else None
            elif t.lstrip("-") == l:
                kind = "-name" if t.startswith("-") else "name"
            if kind:
                feats.add(kind)
                break
    # one coarse word per bucket: the most "interesting" kind of token that decides one of the licenses
    for kind in ("-@group", "@group", "*", "-*", "-name", "name"):
        if kind in feats:
            return {"-@group": "negated-group", "@group": "group", "*": "star", "-*": "clear", "-name": "negated-name", "name": "name"}[kind]
    return "unmentioned"


# ---------------------------------------------------------------- the check

def run_case(ctx, case, record=True):
    spec = case["spec"]
    ref = Ref(spec)
    n = len(spec["pkgs"])
    exp = [ref.visible(i) for i in range(n)]
    if record:
        kinds = set()
        if any(ref.masks.values()):
            kinds.add("mask")
        if any(ref.unmasks.values()):
            kinds.add("unmask")
        if ref.kw_entries:
            kinds.add("kw_entry")
        if ref.lic_entries:
            kinds.add("lic_entry")
        if {"*", "~*", "**"} & set(ref.global_kw):
            kinds.add("global_glob_kw")
        if any(t.lstrip("-").startswith("@") for t in ref.lic_profile + ref.lic_conf + [x for _, l in ref.lic_entries for x in l]):
            kinds.add("lic_group")
        if any(not toks for _, _, toks in ref.kw_entries):
            kinds.add("empty_kw_entry")
        if any(l[0].startswith("-") for nd in spec["profiles"] for l in _lines(nd.get("package.mask", ""))):
            kinds.add("mask_negation")
        if len(spec["profiles"]) > 1:
            kinds.add("two_nodes")
        cl = sorted(kinds) + (["both_outcomes"] if len(set(exp)) == 2 else []) + list(spec.get("_group_tags", ()))
        ctx.case(case, nontrivial=len(kinds - {"two_nodes"}) >= 2 and len(set(exp)) == 2, classes=cl, key=core.jdump(case), n=n)

    def body():
        d = ctx.fresh_dir("vis")
        try:
            return evaluate(domaincfg.build(d, _strip_private(spec)))
        finally:
            shutil.rmtree(d, ignore_errors=True)  # keep the scratch area small (thousands of cases per task)

    def evaluate(b):
        from pkgcore.restrictions import packages

        dom = b.domain
        vis = {p.cpvstr for p in dom.filter_repo(b.tree).itermatch(packages.AlwaysTrue)}
        got = [p.cpvstr in vis for p in b.pkgs]
        if got == exp:
            return
        # localise: ask the three components separately
        unmasked = {p.cpvstr for p in dom.filter_repo(b.tree, pkg_filters=()).itermatch(packages.AlwaysTrue)}
        filters = dom._pkg_filters()
        for idx, pkg in enumerate(b.pkgs):
            if got[idx] == exp[idx]:
                continue
            r_masked, by, un = ref.mask_state(idx)
            r_kw, kw_reason = ref.keyword_state(idx)
            r_lic = ref.license_state(idx)[0]
            g_masked = pkg.cpvstr not in unmasked
            g_kw = bool(filters[0].match(pkg))
            g_lic = bool(filters[1].match(pkg)) if len(filters) > 1 else True
            detail = (f"{pkg.cpvstr}: visible={got[idx]} expected={exp[idx]} | masked got={g_masked} ref={r_masked} (by {by} unmask {un}) | "
                      f"keywords got={g_kw} ref={r_kw} ({kw_reason}; KEYWORDS={spec['pkgs'][idx]['keywords']!r}) | "
                      f"license got={g_lic} ref={r_lic} (LICENSE={spec['pkgs'][idx]['license']!r})")
            if g_masked != r_masked:
                ctx.violation(f"mask:{'spurious' if g_masked else 'missed'}:masked-by-{by[0] if by else 'none'}:unmasked-by-{un[0] if un else 'none'}", case, detail)
            elif g_kw != r_kw:
                if r_kw:
                    ctx.violation(f"keywords:rejected:{kw_reason}" + (":no-entries" if not ref.kw_entries else ""), case, detail)
                else:
                    kws = spec["pkgs"][idx]["keywords"].split()
                    why = "other"
                    if "~*" in ref.global_kw and any(k[0] not in "-~" for k in kws):
                        why = "global-testing-glob-with-stable-keyword"
                    ctx.violation(f"keywords:spurious-accept:{why}", case, detail)
            elif g_lic != r_lic:
                ctx.violation(f"license:{'rejected' if r_lic else 'spurious-accept'}:{_license_feature(ref, idx)}", case, detail)
            else:
                ctx.violation("combination", case, detail)
            return

    core.guarded(ctx, case, body)


def _strip_private(spec):
    s = {k: v for k, v in spec.items() if not k.startswith("_")}
    s["profiles"] = [{k: v for k, v in n.items() if not k.startswith("_")} for n in spec["profiles"]]
    return s


# ---------------------------------------------------------------- generator (choice tape)

def gen_lic_tokens(t, mx=4):
    pool = LIC + ["@" + g for g in GROUPS] + ["@" + g for g in GROUPS] + ["@MISSING", "*"]
    names = t.subset(pool, 1, mx)
    out = []
    for x in names:
        if x != "*" and t.take(3) == 0:
            out.append("-" + x)
        else:
            out.append(x)
    if t.take(3) == 0:
        out.insert(t.take(len(out) + 1), "-*")
    return out


def gen_license_groups(t):
    """nested license groups: depth 0-3, listing order outer-first / inner-first / mixed, sibling groups"""
    defs, tags = domaincfg.gen_license_group_defs(t, ["GPL-2", "MIT", "BSD", "CC0", "EULA"])
    return "".join(n + " " + " ".join(m) + "\n" for n, m in defs), tags


def gen_kw_entry_tokens(t):
    k = t.take(8)
    if k == 0:
        return []
    if k == 1:
        return ["**"]
    if k == 2:
        return ["~*"]
    if k == 3:
        return ["*"]
    return t.subset(["~x86", "amd64", "~amd64", "x86"], 1, 2)


def gen_profile_node(t, first, parent_masks):
    n = {}
    md = []
    if first:
        ak = t.pick(["x86", "x86", "x86", "x86 ~x86", "x86 ~x86", "x86 amd64", "x86 **", "x86 ~*", "x86 *"])
        n["_ACCEPT_KEYWORDS"] = ak
        md += [f'ARCH="{ARCH}"', f'ACCEPT_KEYWORDS="{ak}"']
    if t.take(2):
        toks = gen_lic_tokens(t)
        if first and t.take(2):
            toks = ["-*"] + [x for x in toks if x != "-*"]
        n["_ACCEPT_LICENSE"] = " ".join(toks)
        md.append('ACCEPT_LICENSE="' + " ".join(toks) + '"')
    if md:
        n["make.defaults"] = "\n".join(md) + "\n"
    if t.take(2):
        lines = t.subset(PROFILE_KEYS, 1, 3)
        if parent_masks and t.take(2):
            # remove an inherited mask (never an atom this very file also adds: the order inside one file is not
            # something the statement fixes)
            rm = t.pick(parent_masks)
            if rm not in lines:
                lines.append("-" + rm)
        n["package.mask"] = "\n".join(lines) + "\n"
    if t.take(3) == 0:
        n["package.unmask"] = "\n".join(t.subset(PROFILE_KEYS, 1, 2)) + "\n"
    if t.take(4) == 0:
        n["package.accept_keywords"] = "\n".join(
            (k + " " + " ".join(gen_kw_entry_tokens(t))).strip() for k in t.subset(PROFILE_KEYS, 1, 2)) + "\n"
    return n


def gen_case(t):
    nodes = [gen_profile_node(t, True, [])]
    if t.take(2):
        pm = [l[0] for l in _lines(nodes[0].get("package.mask", ""))]
        nodes.append(gen_profile_node(t, False, pm))
    conf = {}
    if t.take(2):
        conf["package.mask"] = "\n".join(t.subset(ALL_USER_KEYS, 1, 3)) + "\n"
    if t.take(2):
        conf["package.unmask"] = "\n".join(t.subset(ALL_USER_KEYS, 1, 3)) + "\n"
    if t.take(3):
        lines = [(k + " " + " ".join(gen_kw_entry_tokens(t))).strip() for k in t.subset(ALL_USER_KEYS, 1, 3)]
        if t.take(3) == 0 and len(lines) > 1:
            conf["package.accept_keywords"] = {"00": lines[0] + "\n", "50": "\n".join(lines[1:]) + "\n"}
        else:
            conf["package.accept_keywords"] = "\n".join(lines) + "\n"
    if t.take(3):
        conf["package.license"] = "\n".join(k + " " + " ".join(gen_lic_tokens(t, 3)) for k in t.subset(ALL_USER_KEYS, 1, 3)) + "\n"
    settings = {}
    has_profile_lic = any("_ACCEPT_LICENSE" in n for n in nodes)
    if not has_profile_lic or t.take(3) == 0:
        settings["ACCEPT_LICENSE"] = " ".join(gen_lic_tokens(t))
    if t.take(8) == 0:
        # a testing keyword is only ever accepted next to its stable form (pkgcore lets ~arch imply arch; the
        # statement is silent about that, so it is not probed)
        settings["ACCEPT_KEYWORDS"] = t.pick(["~x86", "amd64", "amd64 ~amd64", "**"])
    pkgs = []
    for cpv, slot in PKGS:
        pkgs.append({"cpv": cpv, "slot": slot, "keywords": t.pick(KEYWORD_SETS), "license": t.pick(LICENSE_STRINGS)})
    groups_text, group_tags = gen_license_groups(t)
    spec = {"profiles": nodes, "conf": conf, "settings": settings, "pkgs": pkgs, "license_groups": groups_text,
            "_group_tags": group_tags}
    if t.take(3) == 0:
        spec["repo_masks"] = t.subset(PROFILE_KEYS, 1, 2)
    return {"kind": "vis", "spec": spec}


def case_strategy():
    return domaincfg.tape_strategy(3072).map(gen_case)


# ---------------------------------------------------------------- plan / tasks / replay / shrink

def plan(tier, seed):
    if tier == "quick":
        return [{"task": "vis", "examples": 300} for _ in range(14)]
    return [{"task": "vis", "examples": 8000} for _ in range(32)]


def run_task(ctx, task, **kw):
    if task != "vis":
        raise core.HarnessError(f"unknown task {task}")
    core.hyp_run(ctx, case_strategy(), lambda c: run_case(ctx, c), kw["examples"], chunk=150)


def replay(ctx, case):
    run_case(ctx, case)


def _valid(case):
    try:
        spec = case["spec"]
        if len(spec["pkgs"]) != len(PKGS) or not spec["profiles"]:
            return False
        n0 = spec["profiles"][0]
        if "_ACCEPT_KEYWORDS" not in n0:
            return False
        lic_defined = bool((spec.get("settings") or {}).get("ACCEPT_LICENSE"))
        for n in spec["profiles"]:
            md = n.get("make.defaults", "")
            for var in ("ACCEPT_KEYWORDS", "ACCEPT_LICENSE"):
                has = [l for l in md.splitlines() if l.startswith(var + "=")]
                if bool(has) != (("_" + var) in n):
                    return False
                if has and has[0] != f'{var}="{n["_" + var]}"':
                    return False
            if n.get("_ACCEPT_LICENSE"):
                lic_defined = True
            for fname in ("package.mask", "package.unmask", "package.accept_keywords"):
                heads = [l[0] for l in _lines(n.get(fname, ""))]
                for h in heads:
                    if h.lstrip("-") not in KEYS or (h.startswith("-") and h[1:] in heads):
                        return False
        if "ARCH=" not in n0.get("make.defaults", "") or not lic_defined:
            return False
        for fname in ("package.mask", "package.unmask", "package.accept_keywords", "package.license"):
            for l in _lines(_conf_text(spec, fname)):
                if l[0] not in USER_KEYS or (fname == "package.license" and len(l) < 2):
                    return False
        for m in spec.get("repo_masks", ()):
            if m not in KEYS:
                return False
        for p in spec["pkgs"]:
            parse_license(p["license"])
        defined = {l[0] for l in _lines(spec.get("license_groups") or "")}
        for l in _lines(spec.get("license_groups") or ""):
            if any(m.startswith("@") and m[1:] not in defined for m in l[1:]):
                return False
        return True
    except (KeyError, IndexError, TypeError, ValueError, AssertionError):
        return False


def _variants(x, path=()):
    if isinstance(x, list):
        for i in range(len(x)):
            yield x[:i] + x[i + 1:]
        for i in range(len(x)):
            for v in _variants(x[i], path + (i,)):
                yield x[:i] + [v] + x[i + 1:]
    elif isinstance(x, dict):
        for k in sorted(x):
            if k in ("kind", "spec", "pkgs", "profiles", "cpv", "slot", "keywords", "license", "_group_tags"):
                continue
            d = dict(x)
            del d[k]
            yield d
        for k in sorted(x):
            if k == "keywords":
                if x[k] != "x86":
                    yield dict(x, keywords="x86")
                continue
            if k == "license":
                if x[k] != "MIT":
                    yield dict(x, license="MIT")
                continue
            for v in _variants(x[k], path + (k,)):
                d = dict(x)
                d[k] = v
                yield d
    elif isinstance(x, str) and "\n" in x:
        lines = x.splitlines()
        for i in range(len(lines)):
            rest = lines[:i] + lines[i + 1:]
            if rest:
                yield "\n".join(rest) + "\n"
        for i, l in enumerate(lines):
            toks = l.split()
            if len(toks) > 2 and '="' not in l:
                for j in range(1, len(toks)):
                    yield "\n".join(lines[:i] + [" ".join(toks[:j] + toks[j + 1:])] + lines[i + 1:]) + "\n"


def shrink_case(ctx, bucket, case):
    def hits(c):
        if not _valid(c):
            return False
        sub = core.Ctx(ctx.pid, ctx.tier, ctx.seed)
        try:
            run_case(sub, c, record=False)
            return bucket in sub.violations
        except Exception:  # noqa: BLE001
            return False
        finally:
            sub.cleanup()

    cur = case
    budget = 300
    progress = True
    while progress and budget > 0:
        progress = False
        for v in _variants(cur):
            budget -= 1
            if budget <= 0:
                break
            if hits(v):
                cur = v
                progress = True
                break
    return cur
