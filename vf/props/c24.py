r"""C24 Installed-package CONTENTS files round-trip; the file is replaced atomically.

Round trip (tasks "rt"):  a generated contents set (files with explicit md5 or with md5 computed lazily from a data
source, float/int mtimes; symlinks; dirs; fifos; devices) is added to `ContentsFile(path, mutable=True, create=True)`
exactly as `vdb/repo_ops.py` does, `flush()`ed and re-read with `ContentsFile(path)` (the `vdb/ondisk.py` call).  The
oracle is an independent codec of the CONTENTS line format written in this module (`ref_write` / `ref_read`, text split
on "\n" only, `rsplit` from the right for md5/mtime, first " -> " separates a symlink from its target):

  * pkgcore-read(pkgcore-written)  == expected
  * ref_read(pkgcore-written)      == expected     (the writer alone is right)
  * pkgcore-read(ref-written)      == expected     (the reader alone is right)
  * a second flush() of the re-read set is byte-identical to the first (write is a fixpoint)
  * the same write/read through an in-memory `data_source` (the other source type the class accepts)

expected = the generated entries themselves: type, path, md5 + int(mtime) for files, target + int(mtime) for symlinks,
path for dir/fifo/dev.  Only for the format-inherent ambiguity (a symlink *location* holding a standalone "->" token)
expected is what the format defines (split at the first arrow), computed by ref_read(ref_write(case)).

Atomic replace, three instruments:
  * observer (every 4th rt seed, in-process): while flush() runs, one audit hook + sys.setprofile look at the CONTENTS
    file after every C call and before every mutating filesystem event below the scratch dir; every content the file
    ever has is what a crash at that instant leaves behind and must be the old text (absent if it was absent) or the
    complete new text.  The same hook then injects one EIO at each event in turn: the file must stay old-or-new, a
    flush() that returns normally must have produced the new text, and a following flush() must succeed.
  * failing flush (every 4th rt seed): an entry whose line cannot be produced (md5 of a vanished file, a name that is
    not UTF-8 encodable) sorts among the others; flush() raises part-way and the old file must be untouched.
  * tasks "crash": real process death with vf.crash (fork): every event of flush() x before/after/eio, file compared
    with old/new, then a plain flush() must recover.  fork costs 0.2-1.5 s per injection on this host, so only a few
    (old, new) pairs per run go this way; breadth comes from the observer.

Dropped w.r.t. DESIGN.md: nothing.  Added: reference writer/reader halves, lazily computed md5, device entries whose
node is absent from / present on the live filesystem (`LookupFsDev` lstat()s the recorded path).
Out of domain (stated, not generated): control characters incl. "\n"/"\r" in paths (line based format), empty symlink
targets, un-normalised or relative paths (fsBase normalises), lone surrogates (not encodable as UTF-8).
"""
import errno
import hashlib
import os
import random
import sys
import unicodedata

from hypothesis import strategies as st

from .. import core, crash

ID = "C24"
TITLE = "Installed-package CONTENTS files round-trip"
LEVEL = "exploration"
TECHNIQUE = (
    "hypothesis contents sets through ContentsFile flush/re-read vs an independent CONTENTS codec (writer and reader "
    "halves separately); fork+audit-hook enumeration of every filesystem event of flush() (before/after/EIO)"
)
DESIGN_REF = "DESIGN.md §3 C24"
LEVEL_TEXT = (
    "Generated-input search for the round trip (sampled contents sets, each checked against an independent codec in "
    "three directions plus a write fixpoint). For the atomic-replace clause every state the CONTENTS file takes during "
    "flush() is observed in-process (after each C call / before each filesystem event), one EIO is injected at every "
    "event, flush() is made to fail part-way, and for a few pairs every event is enumerated with real process death "
    "(fork, crash-before / crash-after-open / EIO); the bytes are compared with the old and the complete new text."
)
LEVEL_NOTE = (
    "Trusted: ref_write/ref_read in this module (CONTENTS line format as written by portage/pkgcore). Crash model: "
    "process death at Python-visible events, user-space buffers lost; no torn block writes, no fsync/rename durability."
)
RULE = (
    "case = list of 1-8 entries (thorough up to 14) with unique normalised absolute paths built from segments over an "
    "alphabet with spaces (runs, leading/trailing in a segment), '-', '>', '->' fragments, Latin-1/CJK/astral/combining "
    "characters and Unicode spaces; symlink targets likewise plus standalone ' -> ' tokens; non-trivial = some path or "
    "target contains a space, '->' or a non-ASCII character; distinct = distinct case JSON. observer/crash cases add an "
    "old file (absent / small / larger than the stdio buffer) and count one evaluation per plain run and per injection"
)
ASSUMPTIONS = [
    "paths are absolute, normalised, valid Unicode without control characters (CONTENTS is a line-based UTF-8 text format)",
    "symlink targets are non-empty",
    "a symlink location containing a standalone '->' token is read back split at the first arrow (format-inherent)",
    "entries are strict fs objects as produced by livefs scans; regular files carry an md5 or a data source",
    "device entries: the recorded path is looked up on the live filesystem by design; /dev/null and / are assumed to exist, /vf-c24-absent not",
    "process locale encodes text files as UTF-8 (the check runs with the C/POSIX locale -> Python UTF-8 mode)",
]
BUDGET = {"quick": 50, "thorough": 900}

ABSENT_ROOT = "/vf-c24-absent"  # never exists on the live fs: device lookups below it hit the "missing" branch
LIVE_DEVS = ["/dev/null", "/dev/zero", "/dev/full"]  # real char devices
LIVE_NONDEV = ["/", "/etc/passwd"]  # a directory / regular file where a device was recorded

# ---------------------------------------------------------------------------------------------------------------
# reference codec (independent of pkgcore)


def ref_line(e):
    t = e["type"]
    if t == "file":
        return "obj %s %032x %d" % (e["path"], e["md5"], int(e["mtime"]))
    if t == "sym":
        return "sym %s -> %s %d" % (e["path"], e["target"], int(e["mtime"]))
    return {"dir": "dir ", "fifo": "fif ", "dev": "dev "}[t] + e["path"]


def ref_write(entries):
    return "".join(ref_line(e) + "\n" for e in sorted(entries, key=lambda e: e["path"]))


def ref_read(text):
    """{path: (type, md5|None, mtime|None, target|None)}"""
    out = {}
    for line in text.split("\n"):
        if not line:
            continue
        kind, rest = line[:3], line[4:]
        if line[3:4] != " ":
            raise ValueError(f"bad line {line!r}")
        if kind == "obj":
            path, md5, mtime = rest.rsplit(" ", 2)
            out[path] = ("file", int(md5, 16), int(mtime), None)
        elif kind == "sym":
            body, mtime = rest.rsplit(" ", 1)
            path, target = body.split(" -> ", 1)
            out[path] = ("sym", None, int(mtime), target)
        elif kind in ("dir", "fif", "dev"):
            out[rest] = ({"dir": "dir", "fif": "fifo", "dev": "dev"}[kind], None, None, None)
        else:
            raise ValueError(f"bad line {line!r}")
    return out


def entry_md5(e):
    if "md5" in e:
        return e["md5"]
    return int(hashlib.md5(e["data"].encode("latin-1")).hexdigest(), 16)


def with_md5(entries):
    return [dict(e, md5=entry_md5(e)) if e["type"] == "file" else e for e in entries]


def expected_of(entries):
    exp = {}
    for e in entries:
        t = e["type"]
        if t == "file":
            exp[e["path"]] = ("file", entry_md5(e), int(e["mtime"]), None)
        elif t == "sym":
            exp[e["path"]] = ("sym", None, int(e["mtime"]), e["target"])
        else:
            exp[e["path"]] = (t, None, None, None)
    return exp


def ambiguous(e):
    return e["type"] == "sym" and "->" in e["path"].split(" ")


# ---------------------------------------------------------------------------------------------------------------
# generators

WORDS = ["a", "b", "lib", "x1", "Z", "usr", "share", "doc"]
FRAGS = [" ", " ", "  ", "   ", "-", ">", "->", "-> ", " ->", " -> ", "->x", "-->", ".", "..", "_", "\u00e9", "\u00df", "\u65e5\u672c",
         "\U0001d11e", "e\u0301", "\u00a0", "\u3000", "\u2009", "\u2028", "'", '"', "\\", "#", "$", "obj", "sym", "dir", "0", "7f"]


TOKENS = WORDS + FRAGS + FRAGS + ["/"] * 22
# rarely: any other printable code point (no controls, no surrogates, no "/")
RARE_RANGES = [(0x21, 0x7E), (0xA1, 0x24F), (0x370, 0x3FF), (0x2000, 0x206F), (0x3000, 0x30FF), (0x1F300, 0x1F5FF)]


def _rare(rnd):
    while True:
        lo, hi = rnd.choice(RARE_RANGES)
        ch = chr(rnd.randint(lo, hi))
        if ch != "/" and unicodedata.category(ch) not in ("Cc", "Cs", "Cn"):
            return ch


def _tokens(rnd, maxtok):
    return [_rare(rnd) if rnd.random() < 0.04 else rnd.choice(TOKENS) for _ in range(rnd.randint(1, maxtok))]


def _mkpath(tokens):
    segs = [s for s in "".join(tokens).split("/") if s and s not in (".", "..")]
    return "/" + "/".join(segs or ["d"])


def gen_path(rnd, maxtok=12):
    return _mkpath(_tokens(rnd, maxtok))


def gen_target(rnd):
    kind = rnd.randint(0, 5)
    tokens = _tokens(rnd, 8)
    body = "".join(tokens)
    if kind == 0:
        return _mkpath(tokens)
    if kind == 1:
        return "../" + body.lstrip("/") if body.strip("/") else "../x"
    if kind == 2:
        return (body.replace("/", "") or "t") + " -> " + body
    return body if body.strip("/") else "t" + body


MTIME_SPECIAL = [0, 1, 0.999, 1700000000.5, 2**31 - 1, 2**31, 2**32 + 0.25]
MD5_SPECIAL = [0, 1, 2**124 - 1, 2**127, 2**128 - 1, 0xD41D8CD98F00B204E9800998ECF8427E]
TYPES = ["file"] * 6 + ["sym"] * 6 + ["dir"] * 4 + ["fifo"] * 3 + ["dev"]


def gen_mtime(rnd):
    k = rnd.randint(0, 3)
    if k == 0:
        return rnd.choice(MTIME_SPECIAL)
    if k == 1:
        return rnd.randint(0, 2**33)
    return rnd.randint(0, 2**33 * 1000) / 1000.0


def gen_entry(rnd):
    t = rnd.choice(TYPES)
    e = {"type": t, "path": gen_path(rnd)}
    if t == "file":
        e["mtime"] = gen_mtime(rnd)
        if rnd.randint(0, 9) == 0:
            e["data"] = "".join(chr(rnd.randint(0, 255)) for _ in range(rnd.randint(0, 40)))
        else:
            e["md5"] = rnd.choice(MD5_SPECIAL) if rnd.randint(0, 5) == 0 else rnd.getrandbits(128)
    elif t == "sym":
        e["mtime"] = gen_mtime(rnd)
        e["target"] = gen_target(rnd)
    elif t == "dev":
        k = rnd.randint(0, 5)
        if k <= 2:
            e["path"] = ABSENT_ROOT + e["path"]
        elif k <= 4:
            e["path"] = rnd.choice(LIVE_DEVS)
        else:
            e["path"] = rnd.choice(LIVE_NONDEV)
    return e


def gen_entries(rnd, maxn):
    out, seen = [], set()
    for _ in range(rnd.randint(1, maxn)):
        e = gen_entry(rnd)
        if e["path"] not in seen:
            seen.add(e["path"])
            out.append(e)
    return out


SEEDS = st.integers(0, 2**64 - 1)  # all randomness comes from this hypothesis draw, expanded deterministically


def entries_from_seed(n, maxn):
    return gen_entries(random.Random(n), maxn)


# ---------------------------------------------------------------------------------------------------------------
# pkgcore side


# imported once in the runner (workers are forked per task; importing pkgcore in each of them costs seconds on a busy host)
from pkgcore.fs import fs  # noqa: E402
from pkgcore.vdb.contents import ContentsFile  # noqa: E402
from snakeoil import data_source  # noqa: E402


def _mods():
    return fs, ContentsFile, data_source


def build_obj(e, mods):
    fs, _, data_source = mods
    common = {"mode": 0o644, "uid": 0, "gid": 0}
    t = e["type"]
    if t == "file":
        kw = dict(common, mtime=e["mtime"], dev=None, inode=None)
        if "md5" in e:
            return fs.fsFile(e["path"], chksums={"md5": e["md5"]}, **kw)
        return fs.fsFile(e["path"], data=data_source.data_source(e["data"].encode("latin-1")), chf_types=("md5",), **kw)
    if t == "sym":
        return fs.fsLink(e["path"], e["target"], mtime=e["mtime"], **dict(common, mode=0o777))
    if t == "dir":
        return fs.fsDir(e["path"], mtime=1, **dict(common, mode=0o755))
    if t == "fifo":
        return fs.fsFifo(e["path"], mtime=1, **common)
    if t == "dev":
        return fs.fsDev(e["path"], major=1, minor=3, mode=0o020666, uid=0, gid=0, mtime=1)
    raise core.HarnessError(t)


def make_cset(path, entries, mods):
    c = mods[1](path, mutable=True, create=True)
    for e in entries:
        c.add(build_obj(e, mods))
    return c


def observed(cset):
    out = {}
    for o in cset:
        if o.is_reg:
            out[o.location] = ("file", o.chksums["md5"], o.mtime, None)
        elif o.is_sym:
            out[o.location] = ("sym", None, o.mtime, o.target)
        elif o.is_dir:
            out[o.location] = ("dir", None, None, None)
        elif o.is_fifo:
            out[o.location] = ("fifo", None, None, None)
        elif o.is_dev:
            out[o.location] = ("dev", None, None, None)
        else:
            out[o.location] = (type(o).__name__, None, None, None)
    return out


def classify(entries):
    cl = set()
    nontriv = False
    for e in entries:
        texts = [e["path"]] + ([e["target"]] if e["type"] == "sym" else [])
        for i, s in enumerate(texts):
            which = "path" if i == 0 else "target"
            if " " in s:
                cl.add(f"space_in_{which}")
                nontriv = True
            if "  " in s:
                cl.add("space_run")
            if "->" in s:
                nontriv = True
                cl.add(f"arrow_in_{which}")
                if "->" in s.split(" "):
                    cl.add(f"arrow_token_in_{which}")
            if any(ord(c) > 127 for c in s):
                nontriv = True
                cl.add("non_ascii")
            if s != s.rstrip():
                cl.add(f"trailing_ws_{which}")
        cl.add("type_" + e["type"])
        if e["type"] == "file":
            cl.add("lazy_md5" if "data" in e else "explicit_md5")
            if isinstance(e["mtime"], float) and e["mtime"] != int(e["mtime"]):
                cl.add("fractional_mtime")
        if e["type"] == "dev":
            p = e["path"]
            cl.add("dev_absent" if p.startswith(ABSENT_ROOT) else ("dev_live" if p in LIVE_DEVS else "dev_path_is_nondev"))
        if e["path"] != e["path"].rstrip() and e["type"] in ("dir", "fifo", "dev"):
            cl.add("trailing_ws_bare_line")
        if ambiguous(e):
            cl.add("ambiguous_sym_location")
    return sorted(cl), nontriv


def diff_bucket(where, exp, got, entries):
    """root-cause key + message for a mismatch between expected and observed mappings"""
    missing = sorted(set(exp) - set(got))
    extra = sorted(set(got) - set(exp))
    if missing or extra:
        if any(x.endswith("\n") for x in extra):
            return f"{where}:newline-kept-in-path", f"missing={missing[:3]!r} extra={extra[:3]!r}"
        # trailing whitespace eaten from the path of a dir/fif/dev line (the path is the end of the line)?  Also when the
        # shortened path collides with another entry, so decide on the input rather than on the symptom.
        for e in entries:
            m = e["path"]
            if e["type"] in ("dir", "fifo", "dev") and m.rstrip() != m:
                stripped = os.path.normpath(m.rstrip() or "/")
                if m not in got or (stripped in got and stripped not in exp):
                    return f"{where}:path-trailing-whitespace-lost", f"{e['type']} path {m!r} read back as {stripped!r}"
        t = exp[missing[0]][0] if missing else got[extra[0]][0]
        return f"{where}:keys:{t}", f"missing={missing[:3]!r} extra={extra[:3]!r}"
    for p in sorted(exp):
        e, g = exp[p], got[p]
        if e[0] != g[0]:
            return f"{where}:type:{e[0]}", f"{p!r}: expected type {e[0]}, got {g[0]}"
        if e[1] != g[1]:
            return f"{where}:md5", f"{p!r}: md5 {e[1]:#x} read back as {g[1]!r}"
        if e[2] != g[2] or type(g[2]) is not type(e[2]):
            return f"{where}:mtime:{e[0]}", f"{p!r}: mtime {e[2]!r} read back as {g[2]!r}"
        if e[3] != g[3]:
            return f"{where}:target", f"{p!r}: target {e[3]!r} read back as {g[3]!r}"
    return None, None


_DIRS = {}


def _workdir(ctx, name):
    key = (id(ctx), name)
    if key not in _DIRS:
        _DIRS[key] = ctx.fresh_dir(name)
    return _DIRS[key]


def check_roundtrip(ctx, entries, mods, record=True):
    case = {"entries": entries}
    cl, nontriv = classify(entries)
    if record:
        ctx.case(case, nontrivial=nontriv, classes=cl)
    exp = expected_of(entries)
    ref_text = ref_write(with_md5(entries))
    amb = any(ambiguous(e) for e in entries)
    if amb:
        # format-defined reading; the mis-split location is normalised like any location handed to fsBase
        exp = {os.path.normpath(k): v for k, v in ref_read(ref_text).items()}
    elif ref_read(ref_text) != exp:
        raise core.HarnessError(f"reference codec is not an identity on {entries!r}")
    _, ContentsFile, _ = mods
    d = _workdir(ctx, "rt")
    p = os.path.join(d, "CONTENTS")

    def write():
        make_cset(p, entries, mods).flush()
        return True

    if core.crashed(core.guarded(ctx, case, write)):
        return
    with open(p, "rb") as f:
        raw = f.read()
    # writer half
    writer_ok = False
    try:
        wr = ref_read(raw.decode("utf8"))
    except (ValueError, UnicodeDecodeError) as e:
        ctx.violation("write:unparseable", case, f"reference reader cannot parse the written file: {e}; text={raw[:200]!r}")
        wr = None
    if wr is not None:
        if amb:
            wr = {os.path.normpath(k): v for k, v in wr.items()}
        b, msg = diff_bucket("write", exp, wr, entries)
        if b:
            ctx.violation(b, case, msg + f" (file text {raw[:200]!r})")
        else:
            writer_ok = True
    # full round trip; with a correct file on disk a mismatch is the reader's (same bucket as the reader half below)
    back = core.guarded(ctx, case, lambda: ContentsFile(p))
    if not core.crashed(back):
        b, msg = diff_bucket("read" if writer_ok else "roundtrip", exp, observed(back), entries)
        if b:
            if writer_ok:
                ctx.violation(b, case, msg)
            else:
                ctx.count("roundtrip_mismatch_after_writer_mismatch")
        elif not amb:
            # writing what was read is a fixpoint
            p2 = os.path.join(d, "CONTENTS2")

            def again():
                c2 = ContentsFile(p2, mutable=True, create=True)
                c2.update(back)
                c2.flush()
                return True

            if not core.crashed(core.guarded(ctx, case, again)):
                with open(p2, "rb") as f:
                    raw2 = f.read()
                if raw2 != raw:
                    ctx.violation("rewrite:not-a-fixpoint", case, f"first flush {raw[:200]!r}, flush of the re-read set {raw2[:200]!r}")
    # reader half, from the reference text
    p3 = os.path.join(d, "CONTENTS3")
    with open(p3, "w", encoding="utf8", newline="\n") as f:
        f.write(ref_text)
    back3 = core.guarded(ctx, case, lambda: ContentsFile(p3))
    if not core.crashed(back3):
        b, msg = diff_bucket("read", exp, observed(back3), entries)
        if b:
            ctx.violation(b, case, msg)
    # the same through an in-memory data source (the other source type ContentsFile accepts)
    data_source = mods[2]

    def via_ds():
        ds = data_source.data_source("", mutable=True)
        c = ContentsFile(ds, mutable=True, create=True)
        for e in entries:
            c.add(build_obj(e, mods))
        c.flush()
        text = ds.text_fileobj().read()
        return text, observed(ContentsFile(data_source.data_source(ref_text)))

    r = core.guarded(ctx, case, via_ds)
    if not core.crashed(r):
        text, got_ds = r
        if text.encode("utf8") != raw:
            ctx.violation("write-ds:differs-from-file", case, f"data_source flush wrote {text[:200]!r}, file flush wrote {raw[:200]!r}")
        b, msg = diff_bucket("read-ds", exp, got_ds, entries)
        if b:
            ctx.violation(b, case, msg)
    for n in ("CONTENTS", "CONTENTS2", "CONTENTS3"):
        try:
            os.unlink(os.path.join(d, n))
        except OSError:
            pass


# ---------------------------------------------------------------------------------------------------------------
# failing flush (in-process): an entry whose line cannot be produced makes _write raise part-way


class _Vanished(OSError):
    pass


def _poison_obj(kind, path, mods):
    fs, _, data_source = mods
    if kind == "md5-unavailable":
        # a file that vanished between scan and flush: the lazy checksum cannot be computed
        src = data_source.local_source(os.path.join(ABSENT_ROOT, "vanished"))
        return fs.fsFile(path, data=src, chf_types=("md5",), mode=0o644, uid=0, gid=0, mtime=1, dev=None, inode=None)
    if kind == "unencodable":
        # a name with a lone surrogate (non-UTF-8 bytes on disk) cannot be written as UTF-8
        return fs.fsDir(path + "\udcff", mode=0o755, uid=0, gid=0, mtime=1)
    raise core.HarnessError(kind)


def check_failing_flush(ctx, case, mods):
    """case: {"old": entries|None, "new": entries, "poison": [kind, position-path]}"""
    entries = case["new"]
    kind, ppath = case["poison"]
    _, ContentsFile, _ = mods
    cl = ["failing_flush", "poison_" + kind, "old_absent" if case["old"] is None else "old_present"]
    ctx.case(case, nontrivial=classify(entries)[1], classes=cl)
    d = _workdir(ctx, "poison")
    p = os.path.join(d, "CONTENTS")
    for n in os.listdir(d):
        os.unlink(os.path.join(d, n))
    old_bytes = None
    if case["old"] is not None:
        old_bytes = ref_write(with_md5(case["old"])).encode("utf8")
        with open(p, "wb") as f:
            f.write(old_bytes)
    raised = c = None
    try:
        c = make_cset(p, entries, mods)
        c.add(_poison_obj(kind, ppath, mods))
        c.flush()
        del c
    except Exception as e:  # noqa: BLE001 - any failure is acceptable here, the file state is what is checked
        raised = type(e).__name__
        del e
    c = None
    try:
        with open(p, "rb") as f:
            now = f.read()
    except FileNotFoundError:
        now = None
    if raised is not None:
        if now != old_bytes:
            state = "missing" if now is None else f"{len(now)} bytes"
            ctx.violation(f"atomic:failed-flush-replaced-file:{kind}", case,
                          f"flush() raised {raised} but CONTENTS is now {state}, not the old text")
    else:
        ctx.count("poison_not_raised_" + kind)
        ok = False
        if now is not None:
            try:
                got = ref_read(now.decode("utf8", "surrogateescape"))
                ok = all(e["path"] in got or ambiguous(e) or e["path"] != e["path"].rstrip() for e in entries)
            except ValueError:
                ok = False
        if not ok:
            ctx.violation(f"atomic:failed-flush-silent:{kind}", case, "flush() returned normally but the file is not a complete new text")


# ---------------------------------------------------------------------------------------------------------------
# in-process observation of every intermediate state of the target file (no fork)
#
# fork() costs 0.2-1.5 s per injection on this host, so breadth comes from an in-process observer: one audit hook per
# worker (inert unless armed) + sys.setprofile.  While flush() runs, the CONTENTS file is stat()ed after every C call
# returns and before every mutating filesystem event below the scratch root; each distinct content it ever has
# is a state a crash at that instant would leave behind (data still in Python buffers is not in the file, exactly
# as with os._exit).  The same hook injects a single EIO at event k.

_WRITE_FLAGS = os.O_WRONLY | os.O_RDWR | os.O_CREAT | os.O_TRUNC | os.O_APPEND
_PATH_EVENTS = {"os.rename": (0, 1), "os.remove": (0,), "os.chmod": (0,), "os.chown": (0,), "os.truncate": (0,), "os.link": (0, 1),
                "os.symlink": (1,), "os.mkdir": (0,), "os.rmdir": (0,), "os.utime": (0,)}


class _Watch:
    def __init__(self):
        self.armed = False
        self.busy = False
        self.installed = False

    def install(self):
        if not self.installed:
            sys.addaudithook(self._hook)
            self.installed = True

    def _under(self, p):
        if isinstance(p, int) or p is None:
            return False
        p = os.fsdecode(p)
        return p == self.root or p.startswith(self.root + "/")

    def _hook(self, event, args):
        if not self.armed or self.busy:
            return
        name = None
        if event == "open":
            if not isinstance(args[2], int) or not (args[2] & _WRITE_FLAGS) or not self._under(args[0]):
                return
            name = "open"
            path = args[0]
        elif event in _PATH_EVENTS:
            ps = [args[i] for i in _PATH_EVENTS[event] if i < len(args)]
            if not any(self._under(x) for x in ps):
                return
            name = event
            path = ps[0]
        else:
            return
        self.n += 1
        self.events.append((name, os.path.basename(os.fsdecode(path))))
        self._snap(True)
        if self.fail_at == self.n:
            self.fail_at = None
            raise OSError(errno.EIO, "injected I/O error (vf c24)")

    def _profile(self, frame, ev, arg):
        # the file can only change inside a C call: looking after each one returns sees every state
        if self.armed and not self.busy and (ev == "c_return" or ev == "c_exception"):
            self._snap(False)

    def _snap(self, force):
        self.busy = True
        try:
            try:
                st_ = os.stat(self.target)
                sig = (st_.st_ino, st_.st_size, st_.st_mtime_ns)
            except FileNotFoundError:
                sig = None
            if sig == self.last_sig and not force:
                return
            self.last_sig = sig
            if sig is None:
                content = None
            else:
                try:
                    fd = os.open(self.target, os.O_RDONLY)
                    try:
                        chunks = []
                        while True:
                            b = os.read(fd, 1 << 20)
                            if not b:
                                break
                            chunks.append(b)
                        content = b"".join(chunks)
                    finally:
                        os.close(fd)
                except FileNotFoundError:
                    content = None
            if not self.states or self.states[-1][1] != content:
                self.states.append((self.n, content))
        finally:
            self.busy = False

    def run(self, root, target, op, fail_at=None, continuous=True):
        """-> (exception or None, events, states) where states = [(events seen so far, content|None), ...]"""
        self.install()
        self.root, self.target = root, target
        self.n, self.events, self.states, self.last_sig, self.fail_at = 0, [], [], ("init",), fail_at
        exc = None
        self.armed = True
        self._snap(True)
        if continuous:
            sys.setprofile(self._profile)
        try:
            try:
                op()
            except Exception as e:  # noqa: BLE001 - reported by the caller
                # keep no traceback: its frames would keep the half-written AtomicWriteFile alive past the next flush
                exc = _ExcInfo(e)
                del e
        finally:
            sys.setprofile(None)
            self._snap(True)
            self.armed = False
        return exc, list(self.events), list(self.states)


class _ExcInfo:
    def __init__(self, e):
        self.name = type(e).__name__
        self.text = str(e)
        self.is_oserror = isinstance(e, OSError)
        self.bucket = core.pkg_frame_bucket(e)


WATCH = _Watch()


def _describe(content, old_bytes, new_bytes):
    if content is None:
        return "missing"
    if content == b"":
        return "empty"
    kind = "a strict prefix of the new text" if new_bytes.startswith(content) else "neither text"
    return f"{len(content)} bytes ({kind}; old {0 if old_bytes is None else len(old_bytes)}, new {len(new_bytes)})"


def check_watch(ctx, case, mods):
    """case: {"old": None|entries, "new": entries, "old_big", "new_big", "watch": True}"""
    old = case["old"]
    new = list({e["path"]: e for e in list(case["new"]) + big_entries(case.get("new_big", 0))}.values())
    old_bytes = None
    if old is not None:
        oe = list(old) + big_entries(case.get("old_big", 0))
        old_bytes = ref_write(with_md5({e["path"]: e for e in oe}.values())).encode("utf8")
    root = _workdir(ctx, "watch")
    p = os.path.join(root, "CONTENTS")

    def reset():
        for n in os.listdir(root):
            os.unlink(os.path.join(root, n))
        if old_bytes is not None:
            with open(p, "wb") as f:
                f.write(old_bytes)

    def op():
        make_cset(p, new, mods).flush()

    cl, nontriv = classify(new)
    cl = [c for c in cl if not c.startswith("type_")] + ["watch_case", "old_absent" if old is None else "old_present",
                                                          "new_exceeds_buffer" if case.get("new_big") else "new_small"]
    reset()
    exc, events, states = WATCH.run(root, p, op)
    ctx.case(case, nontrivial=nontriv, classes=cl + ["watch_plain"])
    if exc is not None:
        ctx.violation(exc.bucket or f"crash:{exc.name}", case, f"plain flush() raised {exc.name}: {exc.text}")
        return
    new_bytes = states[-1][1]
    ctx.note("flush_event_shape", ",".join(e[0] for e in events))
    ctx.count("watch_states", len(states))
    ok = new_bytes is not None
    if ok:
        try:
            got = ref_read(new_bytes.decode("utf8"))
            ok = len(got) > 0 and all(e["path"] in got or ambiguous(e) or e["path"] != e["path"].rstrip() for e in new)
        except (ValueError, UnicodeDecodeError):
            ok = False
    if not ok:
        ctx.violation("atomic:incomplete-after-flush", case, f"after a completed flush() CONTENTS is {_describe(new_bytes, old_bytes, b'')}")
        return
    for nev, content in states:
        if content != old_bytes and content != new_bytes:
            at = events[nev][0] if nev < len(events) else "end"
            prev = events[nev - 1][0] if nev else "start"
            ctx.violation(f"atomic:torn-state:after-{prev}", case,
                          f"between {prev} and {at} of flush() CONTENTS was {_describe(content, old_bytes, new_bytes)}: "
                          "a crash at that instant leaves neither the old nor the complete new text")
            break
    # single I/O error at each event
    for k in range(1, len(events) + 1):
        reset()
        exc, ev2, st2 = WATCH.run(root, p, op, fail_at=k, continuous=False)  # states before each event + final
        evname = events[k - 1][0]
        sub = dict(case, eio=[k, evname])
        ctx.case(sub, nontrivial=nontriv, classes=cl + ["watch_eio", "eio_at_" + evname])
        bad = [c for _, c in st2 if c != old_bytes and c != new_bytes]
        if bad:
            ctx.violation(f"atomic:torn-state:eio@{evname}", sub,
                          f"I/O error at {evname}: CONTENTS became {_describe(bad[0], old_bytes, new_bytes)}")
            continue
        final = st2[-1][1]
        if exc is None and final != new_bytes:
            ctx.violation(f"atomic:error-swallowed@{evname}", sub, "flush() returned normally after an I/O error but the file still holds the old text")
        if exc is not None and not exc.is_oserror and exc.bucket:
            ctx.violation(exc.bucket, sub, f"I/O error at {evname} surfaced as {exc.name}: {exc.text}")
        rec = core.guarded(ctx, sub, lambda: op() or True)
        if not core.crashed(rec):
            with open(p, "rb") as f:
                after = f.read()
            if after != new_bytes:
                ctx.violation(f"atomic:no-recovery:eio@{evname}", sub, "flush() after the failed one did not produce the complete new text")
    reset()


# ---------------------------------------------------------------------------------------------------------------
# crash enumeration with real process death (vf.crash, forked children)


def big_entries(n):
    """deterministic filler making the text larger than any stdio buffer"""
    return [{"type": "file", "path": f"/usr/share/doc/filler {i:05d} -> x/é", "md5": (i * 0x9E3779B97F4A7C15) % 2**128, "mtime": 1600000000 + i}
            for i in range(n)]


def check_crash(ctx, case, mods):
    """case: {"old": None | entries, "new": entries, "old_big": int, "new_big": int}"""
    old = case["old"]
    new = list(case["new"]) + big_entries(case.get("new_big", 0))
    seen = set()
    new = [e for e in new if not (e["path"] in seen or seen.add(e["path"]))]
    _, ContentsFile, _ = mods
    old_bytes = None
    if old is not None:
        oe = list(old) + big_entries(case.get("old_big", 0))
        old_bytes = ref_write(with_md5({e["path"]: e for e in oe}.values())).encode("utf8")
    exp_new = None if any(ambiguous(e) for e in new) else expected_of(new)

    root = _workdir(ctx, "crash")
    p = os.path.join(root, "CONTENTS")

    def reset():
        for n in os.listdir(root):
            os.unlink(os.path.join(root, n))
        if old_bytes is not None:
            with open(p, "wb") as f:
                f.write(old_bytes)

    def op():
        make_cset(p, new, mods).flush()

    def read():
        try:
            with open(p, "rb") as f:
                return f.read()
        except FileNotFoundError:
            return None

    reset()
    dry = crash.dry_run(op, [root])
    cl, nontriv = classify(new)
    cl = [c for c in cl if not c.startswith("type_")] + ["crash_case", "old_absent" if old is None else "old_present"]
    if dry.status != "completed":
        b = "crash:flush-failed-without-fault"
        ctx.case(case, nontrivial=nontriv, classes=cl)
        ctx.violation(b, case, f"plain flush(): {dry.status} {dry.exc}")
        return
    new_bytes = read()
    if new_bytes is None:
        ctx.case(case, nontrivial=nontriv, classes=cl)
        ctx.violation("atomic:no-file-after-flush", case, "flush() completed but CONTENTS does not exist")
        return
    if exp_new is not None:
        try:
            ok = ref_read(new_bytes.decode("utf8")) == exp_new
        except (ValueError, UnicodeDecodeError):
            ok = False
        if not ok:
            # reported in detail by the rt tasks; the crash oracle below still uses the observed complete text
            ctx.count("crash_new_text_differs_from_reference")
    evs = dry.events
    ctx.count("flush_events", len(evs))
    shape = ",".join(e["ev"] for e in evs)
    ctx.note("flush_event_shape", shape)
    pts = crash.points(evs)
    for k, mode in pts:
        reset()
        res = crash.inject(op, [root], k, mode)
        ev = evs[k - 1]
        sub = dict(case, point=[k, mode, ev["ev"]])
        ctx.case(sub, nontrivial=nontriv, classes=cl + [f"inject_{mode}", f"at_{ev['ev']}"],
                 key=core.jdump(sub))
        if res.status in ("died", "not-reached"):
            ctx.violation(f"crash:harness-{res.status}", sub, f"{res!r}")
            continue
        now = read()
        if now != old_bytes and now != new_bytes:
            state = "missing" if now is None else ("empty" if now == b"" else f"{len(now)} bytes (old {0 if old_bytes is None else len(old_bytes)}, new {len(new_bytes)})")
            ctx.violation(f"atomic:torn:{mode}@{ev['ev']}", sub,
                          f"after {mode} {ev['ev']}({ev.get('path')}) CONTENTS is {state}: neither the old nor the complete new text")
            continue
        if mode == "eio" and res.status == "completed" and now != new_bytes:
            ctx.violation(f"atomic:error-swallowed@{ev['ev']}", sub, "flush() returned normally after an I/O error but the file still holds the old text")
        # recovery: a later flush must go through whatever was left behind
        rec = core.guarded(ctx, sub, lambda: op() or True)
        if not core.crashed(rec):
            after = read()
            if after != new_bytes:
                ctx.violation(f"atomic:no-recovery:{mode}@{ev['ev']}", sub, "flush() after the interrupted one did not produce the complete new text")
    reset()


def poison_case_from_seed(n, maxn):
    rnd = random.Random(n ^ 0x5BD1E995)
    old = None if rnd.randint(0, 3) == 0 else gen_entries(rnd, maxn)
    new = gen_entries(rnd, maxn) + (big_entries(rnd.choice([0, 120, 200])) if rnd.randint(0, 2) == 0 else [])
    new = [e for e in new if e["type"] != "file" or "md5" in e]
    kind = rnd.choice(["md5-unavailable", "unencodable"])
    # the poisoned line sorts somewhere between the others
    ppath = rnd.choice(["/", "/usr/share/doc/filler 00100", "/~"]) + "poison " + str(rnd.randint(0, 9))
    return {"old": old, "new": new, "poison": [kind, ppath]}


def crash_case_from_seed(n, maxn):
    rnd = random.Random(n)
    old = None if rnd.randint(0, 2) == 0 else gen_entries(rnd, maxn)
    new = gen_entries(rnd, maxn)
    big = rnd.choice([(0, 0), (0, 0), (0, 0), (0, 120), (120, 0), (120, 200), (200, 120)])
    return {"old": old, "new": new, "old_big": big[0] if old is not None else 0, "new_big": big[1]}


# ---------------------------------------------------------------------------------------------------------------


def plan(tier, seed):
    tasks = []
    if tier == "quick":
        for _ in range(12):
            tasks.append({"task": "rt", "examples": 500, "maxn": 8})
        for _ in range(4):
            tasks.append({"task": "crash", "examples": 2, "maxn": 5})
    else:
        for _ in range(24):
            tasks.append({"task": "rt", "examples": 8000, "maxn": 14})
        for _ in range(8):
            tasks.append({"task": "crash", "examples": 20, "maxn": 8})
    return tasks


def run_task(ctx, task, **kw):
    mods = _mods()
    if task == "rt":
        def one(n):
            check_roundtrip(ctx, entries_from_seed(n, kw["maxn"]), mods)
            if n % 4 == 0:
                check_failing_flush(ctx, poison_case_from_seed(n, kw["maxn"]), mods)
            if n % 4 == 1:
                check_watch(ctx, dict(crash_case_from_seed(n, kw["maxn"]), watch=True), mods)

        core.hyp_run(ctx, SEEDS, one, kw["examples"], chunk=100)
    elif task == "crash":
        rnd = random.Random(ctx.seed * 1_000_003 + ctx.shard)  # case seeds only; forks are too slow here for hypothesis chunks
        for _ in range(kw["examples"]):
            if ctx.out_of_time():
                break
            check_crash(ctx, crash_case_from_seed(rnd.getrandbits(64), kw["maxn"]), mods)
    else:
        raise core.HarnessError(f"unknown task {task}")


def replay(ctx, case):
    mods = _mods()
    if "poison" in case:
        check_failing_flush(ctx, case, mods)
    elif "watch" in case:
        check_watch(ctx, {k: v for k, v in case.items() if k != "eio"}, mods)
    elif "new" in case:
        c = {k: v for k, v in case.items() if k != "point"}
        check_crash(ctx, c, mods)
    else:
        check_roundtrip(ctx, case["entries"], mods)
