"""C19 An interrupted merge never leaves a replaced file half-written.

Generated: small `vf.gen.fstrees.merge_case` worlds (2..8 image entries, collision rate 0.7 so that files, symlinks,
fifos, hardlink members get *replaced*; refusal-type collisions left out) -- same machinery as C18. For each world
the merge is first run to completion in a forked child under `vf.crash` (audit hook) to log every mutating event
below the root; then the root is rebuilt and the merge re-run once per injection point:

    (k, before)   process dies right before event k        (k, eio)  event k fails with EIO, pkgcore's own error
    (k, after)    dies right after an open(..., write)               handling runs to completion
    (j, half-crash) / (j, half-eio)   the j-th Python-level write() to a file below the root stores only the first
                  half of its buffer and then the process dies / the write raises EIO.

Injector blind spots handled here: `write()` raises no audit event, so this module interposes `builtins.open` inside
the child (snakeoil's data sources open through it) and wraps writable files below the root; `os.mkfifo`/`os.mknod`
raise no audit event either but fs/ops.py calls them as `os.mkfifo(...)`, which `vf.crash` already routes through
its hook; `os.lchown` reports as `os.chown`; `unlink_if_exists` as `os.remove`. The `cp -Rp` subprocess fallback of
copyfile is unreachable for scanned trees (gen_obj maps every other type to fsDev -> mknod). Block-level torn
writes are not modelled.

Oracle at every injection (lstat snapshots of the whole world before/after, `vf.fsx`):
 * a path that existed before and is the location of a non-directory entry holds either exactly its previous
   (type, content/target, mode, uid, gid, mtime) or exactly the complete new one recorded in the image;
 * a pre-existing directory (also behind a symlink) that the contents name keeps type and mode, its owner is the
   old or the recorded pair; a dangling symlink where a directory goes is either still there or a directory with
   the recorded mode/owner;
 * everything else that existed (image, victims hardlinked to replaced files, bystanders) is unchanged, except
   pre-existing `<entry>#new` siblings and mtimes of directories that received entries;
 * new paths are only entry locations, their `#new` siblings, or missing parents.
 * if a faulted merge nevertheless returns, the full C18 post-condition is applied.
"""
import errno
import os

from .. import core, crash, fsx
from ..gen import fstrees as T
from . import c18

ID = "C19"
TITLE = "An interrupted merge never leaves a replaced file half-written"
LEVEL = "fault_enumeration"
TECHNIQUE = "every audit-visible mutation and every write() of a generated merge as crash / EIO / half-write point; old-or-new oracle on snapshots"
DESIGN_REF = "DESIGN.md §3 C19"
LEVEL_TEXT = (
    "For every generated (image, colliding root) world, ALL mutating filesystem events of merge_contents below the root "
    "(open-for-write, rename, unlink, mkdir, link, symlink, chmod, chown, utime, mkfifo) and all write() calls are "
    "enumerated; the merge is re-executed in a forked child once per (event, mode) with the process killed or the "
    "call failing with EIO there, and the surviving tree is compared with the old-or-new model."
)
LEVEL_NOTE = (
    "Crash = os._exit in the child at a Python-visible call boundary (user-space buffers lost). Not modelled: torn "
    "blocks, reordering of metadata vs. data on power loss (no fsync model), faults inside a single syscall. "
    "Worlds are sampled, their injection points are exhaustive."
)
RULE = (
    "evaluation = one (world, injection point, mode) run; non-trivial = the point lies inside a temporary-name window "
    "(from the first event on `X#new` up to and including its rename over X), i.e. while a pre-existing path is being "
    "replaced; distinct = (canonical world JSON, point, mode)"
)
ASSUMPTIONS = [
    "process death loses Python-buffered data; the kernel applies each completed syscall atomically",
    "runs as root on one filesystem (tmpfs scratch, /var/tmp fallback)",
    "temporary `#new` siblings may be left behind by an interrupted merge (the statement exempts them)",
]
BUDGET = {"quick": 70, "thorough": 900}

MODES = ("before", "after", "eio")


def _types(e):
    return e["type"] if e else None


def _fields(t):
    return {"file": ("type", "sha", "mode", "uid", "gid", "mtime"), "sym": ("type", "target", "uid", "gid"),
            "fifo": ("type", "mode", "uid", "gid", "mtime"), "dir": ("type", "mode", "uid", "gid")}.get(t, ("type",))


def _same(a, b, fields=None):
    if a is None or b is None:
        return False
    fields = fields or _fields(b["type"])
    return all(a.get(f) == b.get(f) for f in fields)


def check_interrupted(w, S0, S1, pre, pre_nodes, viol):
    ents = w.entries()
    rroot = w.rel(w.root)
    names = {p for p, _ in ents}
    role = {}  # world-relative path -> (kind, p)
    touched = {rroot}
    for p, rec in ents:
        for E in {pre_nodes[p], w.node(p)}:
            role.setdefault(E, ("dir-entry" if rec["type"] == "dir" else "entry", p))
            touched.add(os.path.dirname(E))
            if rec["type"] != "dir":
                role.setdefault(E + "#new", ("tmp", p))
            else:
                for S in (S0, S1):
                    e = S.get(E)
                    if e is not None and e["type"] == "sym":
                        D = w.rel(os.path.realpath(os.path.join(w.world, E)))
                        role.setdefault(D, ("dir-phys", p))
                        touched.add(D)
        parts = p.split("/")[:-1]
        for i in range(1, len(parts) + 1):
            anc = "/".join(parts[:i])
            if anc in w.drop:
                role.setdefault(w.node(anc), ("created-parent", anc))
                touched.add(w.node(anc))
    SI = w.SI
    for q in sorted(set(S0) | set(S1)):
        a, b = S0.get(q), S1.get(q)
        kind, p = role.get(q, (None, None))
        if a is None:
            # new path
            if kind in ("entry", "dir-entry", "tmp", "created-parent", "dir-phys") or q == rroot:
                continue
            if q == "." or q.startswith("img"):
                viol("frame:added:image", f"new path {q!r}")
            else:
                viol("frame:added:other", f"new path {q!r} is neither an entry, a '#new' sibling nor a missing parent")
            continue
        if kind == "tmp" and p is not None and q not in {w.node(x) for x in names}:
            continue  # stale temporary sibling: free
        if kind == "entry":
            rec = SI[p]
            if a["type"] == "dir":
                if not _same(b, a, ("type", "mode", "uid", "gid")):
                    viol(f"dir-under-nondir-entry-changed:{rec['type']}", f"{q!r}: {c18._brief(a)} -> {c18._brief(b)}")
                continue
            if _same(b, a, fsx_fields(a)) or _same(b, rec):
                continue
            what = "gone" if b is None else ("mixed" if b["type"] in (a["type"], rec["type"]) else "foreign-type")
            viol(f"neither-old-nor-new:{what}:{rec['type']}-over-{a['type']}",
                 f"{q!r} old {c18._brief(a)} new {c18._brief(rec)} found {c18._brief(b)}")
            continue
        if kind in ("dir-entry", "dir-phys"):
            rec = SI[p]
            if a["type"] == "dir":
                if b is None or b["type"] != "dir" or b["mode"] != a["mode"] or c18._owner(b) not in (c18._owner(a), c18._owner(rec)):
                    viol("preexisting-dir-damaged", f"{q!r}: {c18._brief(a)} -> {c18._brief(b)} (recorded {c18._brief(rec)})")
                continue
            if a["type"] == "sym" and kind == "dir-entry":
                if pre[p][1] == "dir":
                    if b is None or b["type"] != "sym" or b["target"] != a["target"] or c18._owner(b) not in (c18._owner(a), c18._owner(rec)):
                        viol("symlinked-dir-damaged", f"{q!r}: {c18._brief(a)} -> {c18._brief(b)}")
                    continue
                if pre[p][1] is None:
                    if _same(b, a, ("type", "target", "uid", "gid")) or _same(b, rec, ("type", "mode", "uid", "gid")):
                        continue
                    viol("nonatomic:dir-over-dangling-symlink", f"{q!r} was a dangling symlink, directory recorded, found {c18._brief(b)}")
                    continue
            # non-directory where a directory goes (refusal): untouched
        # everything else: unchanged
        if b is None:
            where = "image" if q.startswith("img") else ("victim" if "zz-victim" in q else "other")
            viol(f"frame:removed:{where}", f"{q!r} disappeared: {c18._brief(a)}")
            continue
        ch = [f for f in ("type", "mode", "uid", "gid", "mtime", "sha", "target") if a.get(f) != b.get(f)]
        if ch == ["mtime"] and a["type"] == "dir" and (q in touched or (q == "." and rroot not in S0)):
            continue
        if q == rroot:
            ch = [f for f in ch if f != "mtime"]
        if ch:
            where = "image" if q.startswith("img") or q == "." else ("victim" if "zz-victim" in q else "other")
            viol(f"frame:changed:{where}", f"{q!r} changed {ch}: {c18._brief(a)} -> {c18._brief(b)}")


def fsx_fields(e):
    return {"file": ("type", "sha", "mode", "uid", "gid", "mtime"), "sym": ("type", "target", "uid", "gid", "mtime"),
            "fifo": ("type", "mode", "uid", "gid", "mtime")}.get(e["type"], ("type", "mode", "uid", "gid"))


# ---- write() interposition ------------------------------------------------------------------
class _W:
    """proxy for a writable file object below the root: counts write() calls, optionally faults one of them"""

    def __init__(self, f, path, st):
        object.__setattr__(self, "_f", f)
        object.__setattr__(self, "_path", path)
        object.__setattr__(self, "_st", st)

    def write(self, data):
        st = self._st
        st["n"] += 1
        os.write(st["log"], (self._path.replace("\n", "\\n") + "\n").encode("utf8", "surrogateescape"))
        if st["arm"] is not None and st["arm"][0] == st["n"]:
            half = bytes(data)[: len(data) // 2]
            self._f.write(half)
            self._f.flush()
            if st["arm"][1] == "half-crash":
                os._exit(crash.EXIT_CRASH)
            st["arm"] = None
            raise OSError(errno.EIO, "injected I/O error in write (vf.props.c19)")
        return self._f.write(data)

    def __getattr__(self, k):
        return getattr(self._f, k)

    def __setattr__(self, k, v):
        try:
            setattr(self._f, k, v)
        except AttributeError:
            object.__setattr__(self, k, v)

    def __enter__(self):
        return self

    def __exit__(self, *a):
        self._f.close()


def with_write_faults(op, root, logpath, arm):
    def run():
        import builtins

        real = builtins.open
        st = {"n": 0, "arm": arm, "log": os.open(logpath, os.O_WRONLY | os.O_CREAT | os.O_TRUNC, 0o600)}
        prefix = root + "/"

        def opener(file, mode="r", *a, **kw):
            f = real(file, mode, *a, **kw)
            if isinstance(file, str) and file.startswith(prefix) and any(c in mode for c in "wa+x"):
                return _W(f, file[len(prefix):], st)
            return f

        builtins.open = opener
        try:
            return op()
        finally:
            builtins.open = real

    return run


# ---- windows ----------------------------------------------------------------------------------
def tmp_windows(events):
    """[(first event index on X#new, index of its rename, 'copy'|'link')]"""
    out, open_at = [], {}
    for ev in events:
        p, p2 = ev.get("path") or "", ev.get("path2") or ""
        if ev["ev"] == "os.rename" and p.endswith("#new"):
            start, how = open_at.pop(p, (ev["k"], "copy"))
            out.append((start, ev["k"], how))
            continue
        for x in (p, p2):
            if x.endswith("#new") and x not in open_at:
                open_at[x] = (ev["k"], "link" if ev["ev"] == "os.link" else "copy")
    for p, (start, how) in open_at.items():
        out.append((start, 10 ** 9, how))
    return out


def run_world(ctx, case, only=None, record=True):
    """enumerate (or, with only=[k, mode], run one of) the injection points of one world. returns #violations"""
    _c, _l, ops = c18._imports()
    base = c18.scratch_base(ctx)
    w = c18.World(base, case)
    nviol = 0
    wlog = os.path.join(base, "writes.log")
    try:
        w.snapshot_image()
        op = w.merge_op()
        replaced = None

        def rebuild():
            T.rm_tree(w.root)
            if w.variant["offset"] != "missing":
                T.materialise(w.root, case["root"])
                os.utime(w.root, (7, 7))

        pre, refuse = c18.pre_analysis(w)
        pre_nodes = {p: w.node(p) for p, _ in w.entries()}
        replaced = [p for p, rec in w.entries() if (rec["type"] != "dir" and pre[p][0] not in (None, "dir"))
                    or (rec["type"] == "dir" and pre[p] == ("sym", None))]
        cl0, _nt = c18.classify(w, pre, refuse)
        cause = c18.root_cause(w, pre)
        if not replaced:
            if record:
                ctx.case({"img": case["img"], "root": case["root"], "variant": case["variant"], "inject": None},
                         nontrivial=False, classes=["world:nothing-replaced"])
            return 0
        dry = crash.dry_run(with_write_faults(op, w.root, wlog, None), [w.root])
        if dry.status not in ("completed", "raised"):
            raise core.HarnessError(f"dry run {dry!r}")
        if dry.status == "raised" and not refuse and cause is None:
            # C18's business; still enumerate what happened up to the raise
            ctx.count("dry_run_raised")
        with open(wlog, "rb") as f:
            wpaths = f.read().decode("utf8", "surrogateescape").splitlines()
        windows = tmp_windows(dry.events)
        points = [(k, m) for k, m in crash.points(dry.events, MODES)]
        points += [(j, m) for j in range(1, len(wpaths) + 1) for m in ("half-crash", "half-eio")]
        if only is not None:
            points = [tuple(only)] if only[0] is not None else points
        ctx.count("worlds")
        ctx.count("events", len(dry.events))
        evmap = {ev["k"]: ev for ev in dry.events}
        for k, mode in points:
            if ctx.out_of_time():
                break
            rebuild()
            S0 = w.snap()
            if mode in MODES:
                res = crash.inject(op, [w.root], k, mode)
                ev = evmap.get(k, {"ev": "?"})
                in_window = [how for (s, e, how) in windows if s <= k <= e and not (k == s and mode == "before")]
                evname = ev["ev"]
            else:
                res = crash.dry_run(with_write_faults(op, w.root, wlog, (k, mode)), [w.root])
                in_window = ["copy"] if k <= len(wpaths) and wpaths[k - 1].endswith("#new") else []
                evname = "write"
            if res.status == "died":
                raise core.HarnessError(f"child died (timeout?) at {k},{mode}: {res!r}")
            S1 = w.snap()
            icase = {"img": case["img"], "root": case["root"], "variant": case["variant"], "inject": [k, mode]}
            viol = c18.Verdict(ctx, icase, cause, w.world)
            check_interrupted(w, S0, S1, pre, pre_nodes, viol)
            if res.status == "completed" and mode in ("eio", "half-eio"):
                # the fault was swallowed and the merge claims success: then it must be a complete merge
                c18.check_after(w, S0, S1, pre, refuse, "ok", viol, want_entries=True)
            nviol += viol.n
            if record:
                cl = [f"mode:{mode}", f"ev:{evname}", f"status:{res.status}"] + [f"window:{h}" for h in set(in_window)]
                if cause:
                    cl.append(cause)
                ctx.case(icase, nontrivial=bool(in_window), classes=cl,
                         key=core.jdump([case["img"], case["root"], case["variant"], k, mode]))
        return nviol
    finally:
        w.cleanup()
        T.rm_tree(base)


def strategy(tier, max_entries=None):
    return T.merge_case(max_entries=max_entries or (6 if tier == "quick" else 8), min_entries=2, collide=0.7, refusals=False,
                        stale=0.04, big=True, drop=True)


def _m(mode, uid=0, gid=0, mtime=1000000000):
    return {"mode": mode, "uid": uid, "gid": gid, "mtime": mtime}


_V = {"offset": "offset", "order": "sorted", "drop": []}
# hand-written worlds enumerated exhaustively on every run (both tiers), so that the classic replace shapes are
# covered whatever the sampled worlds look like. Entries sort so that something is merged *after* each replacement
# (the completed replacement is then observed by the next injection point).
FIXED = [
    # file over file with other size/mode/owner, then another file
    {"img": [{"path": "a", "type": "file", "data": "new-a", "rep": 3, **_m(0o4755, 12345, 12346, 1234567890)},
             {"path": "b", "type": "file", "data": "b", **_m(0o600)}],
     "root": [{"path": "a", "type": "file", "data": "old-old-old-old-old-old-old-a", "rep": 4, **_m(0o644, 12346, 0, 1)},
              {"path": "b", "type": "file", "data": "", **_m(0o644)}], "variant": _V},
    # hardlink group over three existing files, one of them hardlinked to a bystander
    {"img": [{"path": "h1", "type": "file", "data": "linked", **_m(0o640, 12345, 12345, 2000000000)},
             {"path": "h2", "type": "hardlink", "to": "h1"}, {"path": "h3", "type": "hardlink", "to": "h1"},
             {"path": "z", "type": "file", "data": "z", **_m(0o644)}],
     "root": [{"path": "h1", "type": "file", "data": "OLD1", **_m(0o600)}, {"path": "zz-victim-1", "type": "file", "data": "precious", **_m(0o400, 12346)},
              {"path": "h2", "type": "hardlink", "to": "zz-victim-1"}, {"path": "h3", "type": "sym", "target": "zz-victim-1"}], "variant": _V},
    # type changes: symlink over file, fifo over file, file over symlink-to-bystander, file over fifo, fifo over fifo
    {"img": [{"path": "s", "type": "sym", "target": "t", "uid": 12345, "gid": 12346}, {"path": "p", "type": "fifo", **_m(0o600, 12345, 0, 1)},
             {"path": "f", "type": "file", "data": "F", **_m(0o755, 12346, 12346, 1)}, {"path": "g", "type": "file", "data": "G", "rep": 10, **_m(0o444)},
             {"path": "q", "type": "fifo", **_m(0o666, 12346, 12345, 0)}, {"path": "zz", "type": "sym", "target": "s", "uid": 0, "gid": 0}],
     "root": [{"path": "s", "type": "file", "data": "was a file", **_m(0o644)}, {"path": "p", "type": "file", "data": "was a file too", **_m(0o6711, 12346)},
              {"path": "zz-victim-1", "type": "file", "data": "precious", **_m(0o644)}, {"path": "f", "type": "sym", "target": "zz-victim-1"},
              {"path": "g", "type": "fifo", **_m(0o600)}, {"path": "q", "type": "fifo", **_m(0o600)}, {"path": "zz", "type": "sym", "target": "old"}],
     "variant": dict(_V, offset="rewrite")},
    # >32 kB file over a file hardlinked to a bystander, inside pre-existing and symlinked directories, with a missing parent
    {"img": [{"path": "d", "type": "dir", **_m(0o750, 12345, 12346)}, {"path": "d/big", "type": "file", "data": "0123456789abcde\n", "rep": 4400, **_m(0o644, 12345)},
             {"path": "d/t", "type": "file", "data": "t", **_m(0o644)}, {"path": "l", "type": "dir", **_m(0o711, 12346, 12346)},
             {"path": "l/x", "type": "file", "data": "x", **_m(0o600)}, {"path": "l/y", "type": "file", "data": "y", **_m(0o600)},
             {"path": "m", "type": "dir", **_m(0o755)}, {"path": "m/n", "type": "file", "data": "n", **_m(0o644)}],
     "root": [{"path": "d", "type": "dir", **_m(0o1777, 0, 12345, 1)}, {"path": "d/zz-victim-1", "type": "file", "data": "o", "rep": 33000, **_m(0o644)},
              {"path": "d/big", "type": "hardlink", "to": "d/zz-victim-1"}, {"path": "l.real", "type": "dir", **_m(0o700, 12345, 12345, 1)},
              {"path": "l", "type": "sym", "target": "l.real", "uid": 12345, "gid": 0}, {"path": "l.real/x", "type": "file", "data": "old x", **_m(0o644)}],
     "variant": dict(_V, drop=["m"], offset="offset/")},
]


def plan(tier, seed):
    fixed = [{"task": "fixed", "index": i} for i in range(len(FIXED))]
    if tier == "quick":
        return fixed + [{"task": "worlds", "examples": 5} for _ in range(14)]
    return fixed + [{"task": "worlds", "examples": 150} for _ in range(16)]


def run_task(ctx, task, **kw):
    os.umask(0o022)
    try:
        if task == "fixed":
            run_world(ctx, FIXED[kw["index"]])
        elif task == "worlds":
            core.hyp_run(ctx, strategy(ctx.tier), lambda c: run_world(ctx, c), kw["examples"], chunk=5)
        else:
            raise core.HarnessError(f"unknown task {task}")
    finally:
        c18.scratch_done()


def replay(ctx, case):
    os.umask(0o022)
    try:
        run_world(ctx, case, only=case.get("inject"))
    finally:
        c18.scratch_done()
