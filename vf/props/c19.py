"""C19 An interrupted merge never leaves a replaced file half-written.

Generated: small `vf.gen.fstrees.merge_case` worlds (2..6/8 image entries, collision rate 0.7 so that files, symlinks,
fifos, hardlink members get *replaced*; refusal-type collisions left out) -- same machinery as C18 -- plus four
hand-written worlds (`FIXED`) that are enumerated on every run. For each world the merge is run once to log every
mutating event below the root, then the root is rebuilt and the merge re-run once per injection point:

    (k, before)   the process dies right before event k     (k, eio)  event k fails with EIO once, pkgcore's own
    (k, after)    it dies right after an open-for-write               error handling runs to completion
    (j, half-crash) / (j, half-eio)   the j-th write() to a file below the root stores only the first half of its
                  buffer, then the process dies / the write raises EIO.

Mechanism. `vf.crash` (fork + audit hook) is the reference event log, but a fork costs 25 ms .. seconds on this host
(forks do not scale across processes here), so a per-point fork would allow only a few hundred points per quick run.
The points are therefore injected *in process* by `Injector`: reversible interposition on the `os` attributes
(rename/replace/remove/unlink/rmdir/mkdir/link/symlink/chmod/lchmod/chown/lchown/utime/truncate/mkfifo/mknod/open)
and `builtins.open`, which is how fs/ops.py, snakeoil.osutils (ensure_dirs, unlink_if_exists) and
snakeoil.data_source (transfer_to_path) reach the filesystem. Death is a BaseException (`Crash`) after which every
further interposed call raises again and buffered data of open files is discarded (fd redirected to /dev/null), so
`finally:` clauses cannot repair or flush anything. What the injector cannot see -- a function bound at import time
(`from os import rename`), a subprocess, `os.f*` on descriptors -- is caught by `crosscheck()`: for the FIXED worlds
and the first replaced world of two sampled tasks per run the injector's log must equal the `vf.crash.dry_run` audit
log event by event (same vocabulary: lchown -> os.chown, unlink -> os.remove, mkfifo -> vf.mkfifo), else the run is
a harness error (exit 2), not a pass. write() has no audit event; it is only visible through the `open` proxy.
The `cp -Rp` subprocess fallback of copyfile is unreachable for scanned trees (gen_obj maps every other type to fsDev
-> mknod); it would show up in the cross-check as a subprocess event. Block-level torn writes are not modelled.

Oracle at every injection (lstat snapshots of the whole world before/after, `vf.fsx`):
 * a path that existed before and is the location of a non-directory entry holds either exactly its previous
   (type, content/target, mode, uid, gid, mtime) or exactly the complete new one recorded in the image;
 * a pre-existing directory (also behind a symlink) that the contents name keeps type and mode, its owner is the
   old or the recorded pair; a dangling symlink where a directory goes is either still there or a directory with
   the recorded mode/owner;
 * everything else that existed (image, victims hardlinked to replaced files, bystanders) is unchanged, except
   pre-existing `<entry>#new` siblings and mtimes of directories that received entries;
 * new paths are only entry locations, their `#new` siblings, or missing parents;
 * if a faulted merge nevertheless returns, the full C18 post-condition is applied.
The state *after the last event* is C18's business; worlds therefore merge something after each replacement.
"""
import errno
import os

from .. import core, crash
from ..gen import fstrees as T
from . import c18

ID = "C19"
TITLE = "An interrupted merge never leaves a replaced file half-written"
LEVEL = "fault_enumeration"
TECHNIQUE = "every audit-visible mutation and every write() of a generated merge as crash / EIO / half-write point; old-or-new oracle on snapshots"
DESIGN_REF = "DESIGN.md §3 C19"
LEVEL_TEXT = (
    "For every generated (image, colliding root) world, ALL mutating filesystem events of merge_contents below the root "
    "(open-for-write, rename, unlink, mkdir, link, symlink, chmod, chown, utime, mkfifo) and all write() calls are "
    "enumerated; the merge is re-executed once per (event, mode) with a simulated process death or an EIO failure "
    "there, and the surviving tree is compared with the old-or-new model."
)
LEVEL_NOTE = (
    "Crash = BaseException at a Python-visible call boundary with all later mutations suppressed and user-space "
    "buffers discarded (in-process injector; completeness of its event log is cross-checked against the audit-hook "
    "log of vf.crash on the fixed worlds and two sampled worlds per run). Not modelled: torn blocks, reordering of "
    "metadata vs. data on power loss (no fsync model), faults inside a single syscall. Worlds are sampled, their "
    "injection points are exhaustive."
)
RULE = (
    "evaluation = one (world, injection point, mode) run; non-trivial = the point lies inside a temporary-name window "
    "(from the first event on `X#new` up to and including its rename over X), i.e. while a pre-existing path is being "
    "replaced, or the faulted event is aimed directly at a pre-existing entry location (in-place modification); distinct = (canonical world JSON, point, mode)"
)
ASSUMPTIONS = [
    "process death loses Python-buffered data; the kernel applies each completed syscall atomically",
    "runs as root on one filesystem (tmpfs scratch, /var/tmp fallback)",
    "temporary `#new` siblings may be left behind by an interrupted merge (the statement exempts them)",
]
BUDGET = {"quick": 70, "thorough": 900}

MODES = ("before", "after", "eio")


def _fields(t):
    return {"file": ("type", "sha", "mode", "uid", "gid", "mtime"), "sym": ("type", "target", "uid", "gid"),
            "fifo": ("type", "mode", "uid", "gid", "mtime"), "dir": ("type", "mode", "uid", "gid")}.get(t, ("type",))


def _same(a, b, fields=None):
    if a is None or b is None:
        return False
    fields = fields or _fields(b["type"])
    return all(a.get(f) == b.get(f) for f in fields)


def check_interrupted(w, S0, S1, pre, pre_nodes, viol):
    ents = w.entries()
    rroot = w.rel(w.root)
    names = {p for p, _ in ents}
    role = {}  # world-relative path -> (kind, p)
    touched = {rroot}
    for p, rec in ents:  # entry locations first: they win over the temporary-sibling role of a neighbour
        for E in {pre_nodes[p], w.node(p)}:
            role.setdefault(E, ("dir-entry" if rec["type"] == "dir" else "entry", p))
    for p, rec in ents:
        for E in {pre_nodes[p], w.node(p)}:
            touched.add(os.path.dirname(E))
            if rec["type"] != "dir":
                role.setdefault(E + "#new", ("tmp", p))
            else:
                for S in (S0, S1):
                    e = S.get(E)
                    if e is not None and e["type"] == "sym":
                        D = w.rel(os.path.realpath(os.path.join(w.world, E)))
                        role.setdefault(D, ("dir-phys", p))
                        touched.add(D)
        parts = p.split("/")[:-1]
        for i in range(1, len(parts) + 1):
            anc = "/".join(parts[:i])
            if anc in w.drop:
                role.setdefault(w.node(anc), ("created-parent", anc))
                touched.add(w.node(anc))
    SI = w.SI
    for q in sorted(set(S0) | set(S1)):
        a, b = S0.get(q), S1.get(q)
        kind, p = role.get(q, (None, None))
        if a is None:
            # new path
            if kind in ("entry", "dir-entry", "tmp", "created-parent", "dir-phys") or q == rroot:
                continue
            if q == "." or q.startswith("img"):
                viol("frame:added:image", f"new path {q!r}")
            else:
                viol("frame:added:other", f"new path {q!r} is neither an entry, a '#new' sibling nor a missing parent")
            continue
        if kind == "tmp":
            continue  # stale temporary sibling: free
        if kind == "entry":
            rec = SI[p]
            if a["type"] == "dir":
                if not _same(b, a, ("type", "mode", "uid", "gid")):
                    viol(f"dir-under-nondir-entry-changed:{rec['type']}", f"{q!r}: {c18._brief(a)} -> {c18._brief(b)}")
                continue
            if _same(b, a, fsx_fields(a)) or _same(b, rec):
                continue
            what = "gone" if b is None else ("mixed" if b["type"] in (a["type"], rec["type"]) else "foreign-type")
            viol(f"neither-old-nor-new:{what}:{rec['type']}-over-{a['type']}",
                 f"{q!r} old {c18._brief(a)} new {c18._brief(rec)} found {c18._brief(b)}")
            continue
        if kind in ("dir-entry", "dir-phys"):
            rec = SI[p]
            if a["type"] == "dir":
                if b is None or b["type"] != "dir" or b["mode"] != a["mode"] or c18._owner(b) not in (c18._owner(a), c18._owner(rec)):
                    viol("preexisting-dir-damaged", f"{q!r}: {c18._brief(a)} -> {c18._brief(b)} (recorded {c18._brief(rec)})")
                continue
            if a["type"] == "sym" and kind == "dir-entry":
                if pre[p][1] == "dir":
                    if b is None or b["type"] != "sym" or b["target"] != a["target"] or c18._owner(b) not in (c18._owner(a), c18._owner(rec)):
                        viol("symlinked-dir-damaged", f"{q!r}: {c18._brief(a)} -> {c18._brief(b)}")
                    continue
                if pre[p][1] is None:
                    if _same(b, a, ("type", "target", "uid", "gid")) or _same(b, rec, ("type", "mode", "uid", "gid")):
                        continue
                    viol("nonatomic:dir-over-dangling-symlink", f"{q!r} was a dangling symlink, directory recorded, found {c18._brief(b)}")
                    continue
            # non-directory where a directory goes (refusal): untouched
        # everything else: unchanged
        if b is None:
            where = "image" if q.startswith("img") else ("victim" if "zz-victim" in q else "other")
            viol(f"frame:removed:{where}", f"{q!r} disappeared: {c18._brief(a)}")
            continue
        ch = [f for f in ("type", "mode", "uid", "gid", "mtime", "sha", "target") if a.get(f) != b.get(f)]
        if ch == ["mtime"] and a["type"] == "dir" and (q in touched or (q == "." and rroot not in S0)):
            continue
        if q == rroot:
            ch = [f for f in ch if f != "mtime"]
        if ch:
            where = "image" if q.startswith("img") or q == "." else ("victim" if "zz-victim" in q else "other")
            viol(f"frame:changed:{where}", f"{q!r} changed {ch}: {c18._brief(a)} -> {c18._brief(b)}")


def fsx_fields(e):
    return {"file": ("type", "sha", "mode", "uid", "gid", "mtime"), "sym": ("type", "target", "uid", "gid", "mtime"),
            "fifo": ("type", "mode", "uid", "gid", "mtime")}.get(e["type"], ("type", "mode", "uid", "gid"))


# ---- in-process fault injector ------------------------------------------------------------------
class Crash(BaseException):
    """simulated process death: not an Exception, so no `except Exception/OSError` of the code under test sees it"""


_OS_EVENTS = {
    # os attribute -> (event name as vf.crash logs it, indices of path arguments)
    "rename": ("os.rename", (0, 1)), "replace": ("os.rename", (0, 1)), "remove": ("os.remove", (0,)),
    "unlink": ("os.remove", (0,)), "rmdir": ("os.rmdir", (0,)), "mkdir": ("os.mkdir", (0,)), "link": ("os.link", (0, 1)),
    "symlink": ("os.symlink", (1,)), "chmod": ("os.chmod", (0,)), "lchmod": ("os.chmod", (0,)), "chown": ("os.chown", (0,)),
    "lchown": ("os.chown", (0,)), "utime": ("os.utime", (0,)), "truncate": ("os.truncate", (0,)),
    "mkfifo": ("vf.mkfifo", (0,)), "mknod": ("vf.mknod", (0,)),
}
_WRITE_FLAGS = os.O_WRONLY | os.O_RDWR | os.O_CREAT | os.O_TRUNC | os.O_APPEND


class Injector:
    """Reversible interposition on the `os` module attributes and `builtins.open` (fs/ops.py, snakeoil.osutils and
    snakeoil.data_source all call `os.<f>(...)` / `open(...)` at call time). Same event vocabulary and numbering as
    `vf.crash`; `crosscheck()` compares the two logs so that a call path this injector cannot see is a harness error.

        k, mode:  'before' -> Crash raised instead of performing event k; 'after' -> event k (an open) is performed,
                  then Crash; 'eio' -> event k raises OSError(EIO) once
        wk, wmode: the wk-th write() on a file opened for writing below the root stores half of its buffer, then
                  'half-crash' -> Crash, 'half-eio' -> OSError(EIO)
    After a Crash the injector is dead: every further interposed call raises Crash again without effect and the
    user-space buffers of files still open are discarded (their descriptors are redirected to /dev/null), which is
    what process death does."""

    def __init__(self, root, k=None, mode=None, wk=None, wmode=None):
        self.root = os.path.realpath(root)
        self.k, self.mode, self.wk, self.wmode = k, mode, wk, wmode
        self.n = self.wn = 0
        self.events, self.writes = [], []
        self.dead = False
        self.live = []
        self._saved = {}

    # -- bookkeeping
    def _abs(self, p):
        try:
            p = os.fspath(p)
        except TypeError:
            return None
        if isinstance(p, bytes):
            p = os.fsdecode(p)
        if not os.path.isabs(p):
            p = os.path.join(os.getcwd(), p)
        return os.path.normpath(p)

    def _rel(self, p):
        if p is None:
            return None
        if p == self.root:
            return "."
        return p[len(self.root) + 1:] if p.startswith(self.root + "/") else p

    def _under(self, p):
        return p is not None and (p == self.root or p.startswith(self.root + "/"))

    def die(self):
        self.dead = True
        for f in self.live:
            try:
                if not f.closed:
                    nul = os.open(os.devnull, os.O_WRONLY)
                    os.dup2(nul, f.fileno())
                    os.close(nul)
            except (OSError, ValueError):
                pass
        raise Crash()

    def event(self, name, paths):
        """returns True if the caller has to die right after performing the call"""
        if self.dead:
            raise Crash()
        if not any(self._under(p) for p in paths):
            return False
        self.n += 1
        rec = {"ev": name, "path": self._rel(paths[0]), "k": self.n}
        if len(paths) > 1:
            rec["path2"] = self._rel(paths[1])
        self.events.append(rec)
        if self.k == self.n:
            if self.mode == "before":
                self.die()
            if self.mode == "eio":
                raise OSError(errno.EIO, "injected I/O error (vf.props.c19)")
            if self.mode == "after":
                return True
        return False

    # -- interposition
    def __enter__(self):
        import builtins

        inj = self
        for attr, (evname, idx) in _OS_EVENTS.items():
            real = getattr(os, attr, None)
            if real is None:
                continue
            self._saved[attr] = real

            def f(*a, _real=real, _ev=evname, _idx=idx, **kw):
                ps = [inj._abs(a[i]) for i in _idx if i < len(a)]
                if "dst" in kw and len(ps) < len(_idx):
                    ps.append(inj._abs(kw["dst"]))
                after = inj.event(_ev, ps) if ps else False
                r = _real(*a, **kw)
                if after:
                    inj.die()
                return r

            setattr(os, attr, f)
        real_osopen = self._saved["open"] = os.open

        def osopen(path, flags, *a, **kw):
            after = False
            if flags & _WRITE_FLAGS and not isinstance(path, int):
                after = inj.event("open", [inj._abs(path)])
            fd = real_osopen(path, flags, *a, **kw)
            if after:
                inj.die()
            return fd

        os.open = osopen
        real_open = self._saved["builtins.open"] = builtins.open

        def opener(file, mode="r", *a, **kw):
            writing = isinstance(mode, str) and any(c in mode for c in "wax+")
            p = inj._abs(file) if writing and not isinstance(file, int) else None
            after = False
            if p is not None and inj._under(p):
                after = inj.event("open", [p])
            elif inj.dead:
                raise Crash()
            f = real_open(file, mode, *a, **kw)
            if p is not None and inj._under(p):
                inj.live.append(f)
                f = _W(f, inj._rel(p), inj)
            if after:
                inj.die()
            return f

        builtins.open = opener
        return self

    def __exit__(self, *exc):
        import builtins

        builtins.open = self._saved.pop("builtins.open")
        for attr, real in self._saved.items():
            setattr(os, attr, real)
        self._saved = {}
        for f in self.live:
            try:
                f.close()
            except (OSError, ValueError):
                pass
        self.live = []
        return False


class _W:
    """proxy for a writable file object below the root: counts write() calls, optionally faults one of them"""

    def __init__(self, f, path, inj):
        object.__setattr__(self, "_f", f)
        object.__setattr__(self, "_path", path)
        object.__setattr__(self, "_inj", inj)

    def write(self, data):
        inj = self._inj
        if inj.dead:
            raise Crash()
        inj.wn += 1
        inj.writes.append(self._path)
        if inj.wk == inj.wn:
            self._f.write(bytes(data)[: len(data) // 2])
            self._f.flush()
            if inj.wmode == "half-crash":
                inj.die()
            raise OSError(errno.EIO, "injected I/O error in write (vf.props.c19)")
        return self._f.write(data)

    def __getattr__(self, k):
        return getattr(self._f, k)

    def __setattr__(self, k, v):
        try:
            setattr(self._f, k, v)
        except AttributeError:
            object.__setattr__(self, k, v)

    def __enter__(self):
        return self

    def __exit__(self, *a):
        self._f.close()


class Outcome:
    def __init__(self, status, inj, exc=None):
        self.status, self.events, self.writes, self.exc = status, inj.events, inj.writes, exc


def inproc(ctx, case, op, root, expected, k=None, mode=None, wk=None, wmode=None):
    """run op under the injector. status: completed | crashed | raised | pkgcore-crash"""
    inj = Injector(root, k, mode, wk, wmode)
    status, exc = "completed", None
    try:
        with inj:
            r = core.guarded(ctx, case, op, expected=expected + (Crash,))
        if core.crashed(r):
            status = "pkgcore-crash"
    except Crash:
        status = "crashed"
    except expected as e:
        status, exc = "raised", e
    finally:
        os.umask(0o022)  # snakeoil's ensure_dirs toggles the umask around its mkdirs
    if inj.dead:
        status = "crashed"
    return Outcome(status, inj, exc)


def crosscheck(op, root, events):
    """the audit-hook log of vf.crash (sees every C-level call, but needs a fork) must equal the injector's log"""
    ref = crash.dry_run(op, [root])
    if ref.status not in ("completed", "raised"):
        raise core.HarnessError(f"vf.crash dry run: {ref!r}")
    mine = [(e["ev"], e.get("path"), e.get("path2")) for e in events]
    theirs = [(e["ev"], e.get("path"), e.get("path2")) for e in ref.events]
    if mine != theirs:
        i = next((j for j, (x, y) in enumerate(zip(mine, theirs)) if x != y), min(len(mine), len(theirs)))
        raise core.HarnessError(
            f"injector blind spot: audit log and interposition log differ at event {i + 1}: "
            f"audit={theirs[i:i + 2]} interposed={mine[i:i + 2]} (a mutating call is not made through os.<f>/open)")


def points_of(events, writes):
    pts = []
    for ev in events:
        pts.append((ev["k"], "before"))
        if ev["ev"] == "open":
            pts.append((ev["k"], "after"))
        pts.append((ev["k"], "eio"))
    pts += [(j, m) for j in range(1, len(writes) + 1) for m in ("half-crash", "half-eio")]
    return pts


# ---- windows ----------------------------------------------------------------------------------
def tmp_windows(events):
    """[(first event index on X#new, index of its rename, 'copy'|'link')]"""
    out, open_at = [], {}
    for ev in events:
        p, p2 = ev.get("path") or "", ev.get("path2") or ""
        if ev["ev"] == "os.rename" and p.endswith("#new"):
            start, how = open_at.pop(p, (ev["k"], "copy"))
            out.append((start, ev["k"], how))
            continue
        for x in (p, p2):
            if x.endswith("#new") and x not in open_at:
                open_at[x] = (ev["k"], "link" if ev["ev"] == "os.link" else "copy")
    for p, (start, how) in open_at.items():
        out.append((start, 10 ** 9, how))
    return out


def run_world(ctx, case, only=None, record=True, check_injector=False):
    """enumerate (or, with only=[k, mode], run one of) the injection points of one world. returns #violations"""
    _c, _l, ops = c18._imports()
    expected = (ops.FailedCopy, OSError)
    base = c18.scratch_base(ctx)
    w = c18.World(base, case)
    nviol = 0
    try:
        w.snapshot_image()
        op = w.merge_op()

        def rebuild():
            T.rm_tree(w.root)
            if w.variant["offset"] != "missing":
                T.materialise(w.root, case["root"])
                os.utime(w.root, (7, 7))

        pre, refuse = c18.pre_analysis(w)
        pre_nodes = {p: w.node(p) for p, _ in w.entries()}
        replaced = [p for p, rec in w.entries() if (rec["type"] != "dir" and pre[p][0] not in (None, "dir"))
                    or (rec["type"] == "dir" and pre[p] == ("sym", None))]
        cause = c18.root_cause(w, pre)
        world_classes = sorted(c18.twin_classes(w, pre))
        # root-relative live paths of the entries that get replaced: an event aimed directly at one of them (not at
        # its '#new' sibling) modifies a pre-existing path in place
        live = {os.path.relpath(os.path.join(w.world, pre_nodes[p]), os.path.realpath(w.root)) for p in replaced}
        wcase = {"img": case["img"], "root": case["root"], "variant": case["variant"], "inject": None}
        if not replaced:
            if record:
                ctx.case(wcase, nontrivial=False, classes=["world:nothing-replaced"])
            return 0
        dry = inproc(ctx, wcase, op, w.root, expected)
        if dry.status not in ("completed", "raised"):
            return 0  # pkgcore crashed without any fault: recorded by guarded(), C18's business
        if dry.status == "raised":
            ctx.count("dry_run_raised")
        if check_injector:
            rebuild()
            crosscheck(op, w.root, dry.events)
            ctx.count("injector_crosschecked_worlds")
        windows = tmp_windows(dry.events)
        points = points_of(dry.events, dry.writes)
        if only is not None and only[0] is not None:
            points = [tuple(only)]
        ctx.count("worlds")
        ctx.count("events", len(dry.events))
        ctx.count("writes", len(dry.writes))
        evmap = {ev["k"]: ev for ev in dry.events}
        for k, mode in points:
            if ctx.out_of_time():
                break
            rebuild()
            S0 = w.snap()
            icase = {"img": case["img"], "root": case["root"], "variant": case["variant"], "inject": [k, mode]}
            if mode in MODES:
                res = inproc(ctx, icase, op, w.root, expected, k=k, mode=mode)
                evname = evmap.get(k, {"ev": "?"})["ev"]
                in_window = [how for (s, e, how) in windows if s <= k <= e and not (k == s and mode == "before")]
                if evmap.get(k, {}).get("path") in live and evname != "os.link":
                    in_window.append("in-place")
            else:
                res = inproc(ctx, icase, op, w.root, expected, wk=k, wmode=mode)
                evname = "write"
                in_window = ["copy"] if k <= len(dry.writes) and dry.writes[k - 1].endswith("#new") else []
            S1 = w.snap()
            viol = c18.Verdict(ctx, icase, cause, w.world)
            check_interrupted(w, S0, S1, pre, pre_nodes, viol)
            if res.status == "completed" and mode in ("eio", "half-eio"):
                # the fault was swallowed and the merge claims success: then it must be a complete merge
                c18.check_after(w, S0, S1, pre, refuse, "ok", viol, want_entries=True)
            nviol += viol.n
            if record:
                cl = [f"mode:{mode}", f"ev:{evname}", f"status:{res.status}"] + [f"window:{h}" for h in set(in_window)]
                if cause:
                    cl.append(cause)
                cl += world_classes
                ctx.case(icase, nontrivial=bool(in_window), classes=cl,
                         key=core.jdump([case["img"], case["root"], case["variant"], k, mode]))
        return nviol
    finally:
        w.cleanup()
        T.rm_tree(base)


def strategy(tier, max_entries=None):
    return T.merge_case(max_entries=max_entries or (6 if tier == "quick" else 8), min_entries=2, collide=0.7, refusals=False,
                        stale=0.04, big=True, drop=True)


def _m(mode, uid=0, gid=0, mtime=1000000000):
    return {"mode": mode, "uid": uid, "gid": gid, "mtime": mtime}


_V = {"offset": "offset", "order": "sorted", "drop": []}
# hand-written worlds enumerated exhaustively on every run (both tiers), so that the classic replace shapes are
# covered whatever the sampled worlds look like. Entries sort so that something is merged *after* each replacement
# (the completed replacement is then observed by the next injection point).
FIXED = [
    # file over file with other size/mode/owner, then another file
    {"img": [{"path": "a", "type": "file", "data": "new-a", "rep": 3, **_m(0o4755, 12345, 12346, 1234567890)},
             {"path": "b", "type": "file", "data": "b", **_m(0o600)}],
     "root": [{"path": "a", "type": "file", "data": "old-old-old-old-old-old-old-a", "rep": 4, **_m(0o644, 12346, 0, 1)},
              {"path": "b", "type": "file", "data": "", **_m(0o644)}], "variant": _V},
    # hardlink group over three existing files, one of them hardlinked to a bystander
    {"img": [{"path": "h1", "type": "file", "data": "linked", **_m(0o640, 12345, 12345, 2000000000)},
             {"path": "h2", "type": "hardlink", "to": "h1"}, {"path": "h3", "type": "hardlink", "to": "h1"},
             {"path": "z", "type": "file", "data": "z", **_m(0o644)}],
     "root": [{"path": "h1", "type": "file", "data": "OLD1", **_m(0o600)}, {"path": "zz-victim-1", "type": "file", "data": "precious", **_m(0o400, 12346)},
              {"path": "h2", "type": "hardlink", "to": "zz-victim-1"}, {"path": "h3", "type": "sym", "target": "zz-victim-1"}], "variant": _V},
    # type changes: symlink over file, fifo over file, file over symlink-to-bystander, file over fifo, fifo over fifo
    {"img": [{"path": "s", "type": "sym", "target": "t", "uid": 12345, "gid": 12346}, {"path": "p", "type": "fifo", **_m(0o600, 12345, 0, 1)},
             {"path": "f", "type": "file", "data": "F", **_m(0o755, 12346, 12346, 1)}, {"path": "g", "type": "file", "data": "G", "rep": 10, **_m(0o444)},
             {"path": "q", "type": "fifo", **_m(0o666, 12346, 12345, 0)}, {"path": "zz", "type": "sym", "target": "s", "uid": 0, "gid": 0}],
     "root": [{"path": "s", "type": "file", "data": "was a file", **_m(0o644)}, {"path": "p", "type": "file", "data": "was a file too", **_m(0o6711, 12346)},
              {"path": "zz-victim-1", "type": "file", "data": "precious", **_m(0o644)}, {"path": "f", "type": "sym", "target": "zz-victim-1"},
              {"path": "g", "type": "fifo", **_m(0o600)}, {"path": "q", "type": "fifo", **_m(0o600)}, {"path": "zz", "type": "sym", "target": "old"}],
     "variant": dict(_V, offset="rewrite")},
    # re-merge shapes: same bytes+size+mtime but other owner/mode (setuid to be gained); same size+mtime but other
    # bytes; same bytes, other mtime; byte-identical twin; each followed by another entry
    {"img": [{"path": "u1", "type": "file", "data": "NEW-BINARY\n", **_m(0o4711, 0, 0, 1600000000)},
             {"path": "u2", "type": "file", "data": "same-size-A", **_m(0o644, 12345, 12346, 1600000000)},
             {"path": "u3", "type": "file", "data": "touched", **_m(0o2755, 12346, 0, 1600000000)},
             {"path": "u4", "type": "file", "data": "identical", **_m(0o600, 12345, 12345, 1600000000)},
             {"path": "u5", "type": "hardlink", "to": "u1"}, {"path": "z", "type": "file", "data": "z", **_m(0o644)}],
     "root": [{"path": "u1", "type": "file", "data": "NEW-BINARY\n", **_m(0o755, 12345, 12345, 1600000000)},
              {"path": "u2", "type": "file", "data": "same-size-B", **_m(0o600, 0, 0, 1600000000)},
              {"path": "u3", "type": "file", "data": "touched", **_m(0o755, 0, 0, 1)},
              {"path": "u4", "type": "file", "data": "identical", **_m(0o600, 12345, 12345, 1600000000)},
              {"path": "u5", "type": "file", "data": "NEW-BINARY\n", **_m(0o700, 12346, 12346, 1600000000)}],
     "variant": _V},
    # >32 kB file over a file hardlinked to a bystander, inside pre-existing and symlinked directories, with a missing parent
    {"img": [{"path": "d", "type": "dir", **_m(0o750, 12345, 12346)}, {"path": "d/big", "type": "file", "data": "0123456789abcde\n", "rep": 4400, **_m(0o644, 12345)},
             {"path": "d/t", "type": "file", "data": "t", **_m(0o644)}, {"path": "l", "type": "dir", **_m(0o711, 12346, 12346)},
             {"path": "l/x", "type": "file", "data": "x", **_m(0o600)}, {"path": "l/y", "type": "file", "data": "y", **_m(0o600)},
             {"path": "m", "type": "dir", **_m(0o755)}, {"path": "m/n", "type": "file", "data": "n", **_m(0o644)}],
     "root": [{"path": "d", "type": "dir", **_m(0o1777, 0, 12345, 1)}, {"path": "d/zz-victim-1", "type": "file", "data": "o", "rep": 33000, **_m(0o644)},
              {"path": "d/big", "type": "hardlink", "to": "d/zz-victim-1"}, {"path": "l.real", "type": "dir", **_m(0o700, 12345, 12345, 1)},
              {"path": "l", "type": "sym", "target": "l.real", "uid": 12345, "gid": 0}, {"path": "l.real/x", "type": "file", "data": "old x", **_m(0o644)}],
     "variant": dict(_V, drop=["m"], offset="offset/")},
]


def plan(tier, seed):
    fixed = [{"task": "fixed", "index": i} for i in range(len(FIXED))]
    if tier == "quick":
        return fixed + [{"task": "worlds", "examples": 25, "crosscheck": i < 2} for i in range(14)]
    return fixed + [{"task": "worlds", "examples": 1200, "crosscheck": i < 2} for i in range(16)]


def run_task(ctx, task, **kw):
    os.umask(0o022)
    try:
        if task == "fixed":
            run_world(ctx, FIXED[kw["index"]], check_injector=True)
        elif task == "worlds":
            first = [bool(kw.get("crosscheck"))]

            def one(c):
                # the first world with a replacement of a `crosscheck` task is compared with the audit-hook log (1 fork)
                n0 = ctx.counters["worlds"]
                run_world(ctx, c, check_injector=first[0])
                if ctx.counters["worlds"] > n0:
                    first[0] = False

            core.hyp_run(ctx, strategy(ctx.tier), one, kw["examples"], chunk=25)
        else:
            raise core.HarnessError(f"unknown task {task}")
    finally:
        c18.scratch_done()


def replay(ctx, case):
    os.umask(0o022)
    try:
        run_world(ctx, case, only=case.get("inject"))
    finally:
        c18.scratch_done()
