"""C34 Saved-environment filtering removes exactly the named definitions.

bash writes the dumps, bash judges the result:

  A. Hypothesis generates variables (scalars, indexed and associative arrays, exported or not, values mixing
     quotes, braces, parens, $, backslashes, newlines, control and non-ASCII characters) and functions whose
     bodies are built from a statement grammar (quoted braces, `${x#"}"}`-style expansions, command/arithmetic
     substitution, here-documents incl. `<<-` and quoted delimiters containing `}`, here-strings, `case`, loops,
     groups, sub-shells, nested functions ...).  A first bash (C or C.UTF-8 locale) defines them and *writes the dump
     pieces itself*: `set` lines (posix mode) or `declare -p` lines for variables, `declare -f` for functions.
     Nothing of a function body is ever executed.
  B. The pieces are concatenated in a generated order and fed to `filter_env.main_run` with generated variable /
     function name patterns (literal names, alternations, prefixes, character classes) in blacklist or whitelist mode.
  C. Oracles
     1. reference text: the surviving pieces, in order, must be exactly what comes out - modulo empty lines
        (the filter leaves the newline that followed a removed definition) - so no stray byte (e.g. NUL);
     2. differential: a second bash (env -i) sources the original dump and the filtered text in separate sub-shells;
        the filtered text must source without any diagnostic, the names defined afterwards must be exactly the
        expected survivors, and `declare -p` / `declare -f` of every survivor must be identical in both shells.
     Which names a pattern list selects is decided by the harness with `re.fullmatch` per token.

`declare -p` lines are not "plain assignments": the filter does not look at them (documented in
ebuild-env-utils.bash: "declares and such will slide past filter-env"); they take part as definitions that must be
preserved and must not derail the parse, and are only generated for variables the patterns do not select for
removal (otherwise the variable is dumped as a `set` line instead).  Associative arrays only appear as `declare -A`
lines (left out when selected for removal).

On a failing case the harness isolates the root cause by re-running the filter on one-statement functions
(rebuilt by bash) followed by sentinels; the bucket names the statement template(s) that break the parse.

Scoping (sound first; noted as observations, not hunted): an unquoted `}` *word* (`echo }`) inside a nested `{ }` group
and a command substitution whose last command is an assignment (`$(y=1)`) also derail the parser, but neither is in
the statement's list of constructs; they are not generated.

Dropped from DESIGN.md: comments inside function bodies (bash's `declare -f` never prints them, so they are not part
of "a dump as bash writes it"); they survive only inside the text of here-documents, which is generated.
"""
from __future__ import annotations

import io
import os
import re
import subprocess
import time

from hypothesis import strategies as st

from .. import core

ID = "C34"
TITLE = "Saved-environment filtering removes exactly the named definitions"
LEVEL = "exploration"
TECHNIQUE = ("bash-written dumps (set / declare -p / declare -f of grammar-generated definitions) filtered by "
             "filter_env.main_run; reference text of surviving pieces + differential sourcing in a fresh bash")
DESIGN_REF = "DESIGN.md §3 C34"
LEVEL_TEXT = (
    "Generated-input search: random sets of variables and grammar-built functions are defined in bash, dumped by bash, "
    "filtered with random name patterns in all four blacklist/whitelist modes; the output must equal the surviving "
    "pieces (modulo empty lines) and, sourced by a fresh bash, define exactly the expected names with identical "
    "`declare -p`/`declare -f` text and no diagnostics."
)
LEVEL_NOTE = ("Trusted: bash 5.2 as dump writer and judge; the harness' piece bookkeeping and re.fullmatch for pattern "
              "selection. Function bodies are limited to the statement grammar in this module (depth <= 3).")
RULE = (
    "case = (variables with values from a special-character token alphabet, functions = lists of statement templates "
    "with nesting, piece order, var/func pattern lists, whitelist flags, locale); non-trivial = some surviving definition "
    "follows a function (kept or removed) whose dumped body contains a brace/paren inside quotes or an expansion, a "
    "here-document, or a case statement, or follows a variable line with a backslash before a quote, $'..' quoting or a "
    "brace/paren/newline in its value; distinct = canonical JSON of the case"
)
ASSUMPTIONS = [
    "a dump consists of `set`-style assignment lines, `declare -p` lines and `declare -f` output, as bash 5.2 prints them",
    "pattern tokens are regexes anchored at both ends and or-ed (build_regex_string); selection decided with re.fullmatch",
    "empty lines are insignificant when comparing the filtered text with the surviving pieces",
    "whitelist mode is only used with a non-empty pattern list (an empty list disables filtering in main_run)",
]
BUDGET = {"quick": 50, "thorough": 900}

BATCH = 50
BASH_TIMEOUT = 240

# ---------------------------------------------------------------------------------------------------------
# statement grammar: id -> source text; %B = nested body, %N = unique suffix
LEAF = {
    "echo_dq_close": 'echo "}"',
    "echo_sq_close": "echo '}'",
    "echo_dq_open": 'echo "{" "("',
    "echo_esc": "echo \\} \\{ \\) \\(",
    "echo_mixed": "echo \"a } b\" '{ c' d",
    "pe_hash_dq": 'local y=${x#"}"}',
    "pe_pct_dq": 'y=${x%%"}"*}',
    "pe_pct_esc": "y=${x%\\}}",
    "pe_default_sq": ": ${x:-'}'}",
    "pe_default_dq_in_dq": ': "${x:-"}"}"',
    "pe_sq_in_dq": "echo \"${x:-'}'}\" \"${x#'}'}\"",
    "pe_subst": 'y="${x/\\}/\\{}"',
    "pe_nested": ': "${x:-${y:-"}"}}"',
    "pe_len": "echo ${#x} $# ${#arr[@]} ${arr[*]:1:2}",
    "pe_strip_esc": "echo ${x##*\\}} ${x//\\{/\\}}",
    "pe_ansi": "y=${x//$'\\n'/ }",
    "pe_indirect": 'echo "${!x}" "${!arr[@]}" ${x^^} ${x,,}',
    "comsub": 'y=$(echo "}")',
    "comsub_paren": "y=$(echo \")\" '(' )",
    "comsub_nested": "y=\"$(echo \"$(echo '}')\")\"",
    "comsub_case": 'y=$(case $x in a) echo "}";; esac)',
    "comsub_heredoc": "y=$(cat <<EOF\n}\nEOF\n)",
    "backtick": "y=`echo \\}`",
    "arith": "y=$(( (1 + 2) * 3 ))",
    "arith_shift": "y=$(( x << 2 ))",
    "arith_cmd": "(( x <<= 1 ))",
    "arith_brace": "y=$(( ${#x} + ${y:-0} ))",
    "cond_lt": '[[ $x < "}" ]]',
    "cond": '[[ $x == "}" && -n ${y} ]]',
    "regex": "[[ $x =~ ^\\{.*\\}$ ]]",
    "test_single": '[ "$x" = "}" ]',
    "heredoc": "cat <<EOF\n}\n{ $x\nEOF",
    "heredoc_empty": "cat <<EOF\nEOF",
    "heredoc_empty_redirect": "cat > /dev/null <<EOF\nEOF\necho \"}\"",
    "heredoc_empty_dash": "cat <<-EOF\n\tEOF",
    "heredoc_empty_q": "cat <<'EOF'\nEOF",
    "heredoc_oneline": "cat <<EOF\n$x\nEOF",
    "heredoc_blank_lines": "cat <<EOF\n\n}\n\nEOF",
    "heredoc_dash": "cat <<-EOF\n\t}\n\tEOF",
    "heredoc_q": "cat <<'EOF'\n} ' \"\n# not a comment }\nEOF",
    "heredoc_qbrace": "cat <<'E}F'\n}\nE}F",
    "heredoc_dq": 'cat <<"E OF"\n}\nE OF',
    "heredoc_fakeend": "cat <<EOF\nEOF }\n EOF\nxEOF\nEOF",
    "heredoc_two": "cat <<A <<B\n}\nA\n{\nB",
    "heredoc_pipe": "cat <<EOF | cat\n}\nEOF",
    "herestring": 'cat <<< "}"',
    "case": 'case $x in\n"}") echo "{" ;;\na|b) : ;;\n*) echo ")" ;;\nesac',
    "case_paren": "case $x in (a) echo 1;; (\\}) : ;& *) ;; esac",
    "array": "local -a arr=( \"}\" '{' \\) )",
    "ansi": "y=$'a\\'}\\n'",
    "locale_str": 'y=$"}"',
    "esc_quote": "echo \"a\\\"}\" 'it'\\''s }'",
    "hash_word": 'echo a#b "#}" \\# $#',
    "comment_like": "echo \"# }\" '# {'",
    "brace_exp": "echo {a,b}{1..3} ${x}{y}",
    "pipe": 'echo "}" | cat; true && false || :',
    "redirect": 'echo "}" > /dev/null 2>&1',
    "nonascii": 'echo "é}日本"',
    "dq_newline_brace": 'echo "\n}\n"',
    "sq_newline_brace": "echo '\n}'",
    "quotes_in_quotes": "echo \"it's\" 'say \"}\"'",
    "plain": "echo plain; return 0",
    "assign_words": "x=1 y='}' z=\"{\" w=$'}' true",
    "export_stmt": 'export z="}" ; declare -x zz=\'{\'; readonly zzz=\\}',
    "func_call_brace_arg": "inner_call \\} '}' \"}\" \\{ '{'",
}
NEST = {
    "if": 'if [[ -n $x ]]; then\n%B\nelse\n%B\nfi',
    "for": 'for i in a "}" b; do\n%B\ndone',
    "cfor": "for ((i=0; i<3; i++)); do\n%B\ndone",
    "while_procsub": 'while read -r l; do\n%B\ndone < <(echo "}")',
    "group": "{\n%B\n}",
    "group_redirect": "{\n%B\n} > /dev/null",
    "subshell": "(\n%B\n)",
    "nested_func": "inner_%N() {\n%B\n}",
    "nested_func_kw": "function inner_%N {\n%B\n}",
    "comsub_block": "y=$(\n%B\necho done\n)",
    "case_block": 'case $x in\n"{")\n%B\n;;\nesac',
}
LEAF_IDS = sorted(LEAF)
NEST_IDS = sorted(NEST)

# a dumped body is "tricky" (non-trivial rule) if it has a brace/paren in quotes or expansions, a here-doc or a case
TRICKY = re.compile(r"""["'][^"'\n]*[{}()][^"'\n]*["']|\$\{[^}\n]*["'\\]|<<|\bcase\b|\\[{}()]|\$'""")

# a variable line is "tricky" if its text has a backslash in front of a quote, ANSI-C quoting, or a brace/paren/newline
VAR_TRICKY = re.compile(r"""\\['"]|\$'|[{}()\n].*['"]""", re.S)

VAL_TOKENS = ["}", "{", "(", ")", "'", '"', "\\", "$", "`", "\n", "\t", " ", ";", "#", "<<", "=", "a", "b", "é", "日本",
              "\x01", "\x7f", "\x1b", "$(", "${", "$'", "()", "{}", "\\n", "''", "*", "?", "[", "]", "&", "|", ">", "~", "!",
              "EOF", "-", "function", "f ()", "\n}\n", " # "]


def _stmt(depth):
    leaf = st.sampled_from(LEAF_IDS).map(lambda i: [i])
    if depth <= 0:
        return leaf
    nest = st.tuples(st.sampled_from(NEST_IDS), st.lists(_stmt(depth - 1), min_size=1, max_size=3),
                     st.lists(_stmt(depth - 1), min_size=1, max_size=2)).map(lambda t: [t[0], t[1], t[2]])
    return st.one_of(leaf, leaf, leaf, nest)


def _body():
    return st.lists(_stmt(2), min_size=1, max_size=5)


_VAR_NAMES = ["VT_a", "VT_b", "VT_ab", "VT_a1", "VT_a2", "VT__", "VQ_a", "VQ_b1", "vt_a", "VT_A", "V", "VT_long_name"]
_FUNC_NAMES = ["vf_a", "vf_b", "vf_ab", "vf_a1", "vf_a2", "vq_a", "vq_b1", "vf-dash", "vf.dot", "vf:colon", "vf_A", "vf+x",
               "vf_long_name", "VT_a"]


# runs of backslashes, also directly in front of a quote (even/odd runs decide whether the quote is escaped)
_BS_TOKENS = ["\\", "\\\\", "\\\\\\", "\\'", "\\\\'", "\\\\\\'", "\\\"", "\\\\\"", "\\\\\\\"", "\\$", "\\\\n"]
_CTRL = ["\t", "\n", "\x01", "\x1b", "\x7f", "\r", "\x0c", "\x0b", "\x1c"]
# characters Python calls whitespace but bash does not split on (written bare by bash where printable)
_ODD_SPACE = ["\u00a0", "\u2028", "\u3000", "\u0085", "\u2003"]


@st.composite
def _value_text(draw):
    """token soup; a third of the values end in a run of 1-3 backslashes, a third contain a control character
    (bash then writes the value as $'...'), independently - so every form bash emits ('..', "..", $'..', array
    elements) gets values whose last character before the closing quote is an (escaped) backslash"""
    toks = draw(st.lists(st.sampled_from(VAL_TOKENS + _BS_TOKENS + _ODD_SPACE), min_size=0, max_size=6))
    if draw(st.integers(0, 2)) == 0:
        toks.insert(draw(st.integers(0, len(toks))), draw(st.sampled_from(_CTRL)))
    v = "".join(toks)
    tail = draw(st.sampled_from(["", "", "", "", "\\", "\\", "\\\\", "\\\\\\"]))
    return v + tail


@st.composite
def _var(draw, name):
    kind = draw(st.sampled_from(["scalar", "scalar", "scalar", "array", "assoc"]))
    if kind == "scalar":
        val = draw(_value_text())
    elif kind == "array":
        val = draw(st.lists(_value_text(), min_size=0, max_size=3))
    else:
        ks = draw(st.lists(st.sampled_from(["k", "k 2", "}", "a]b", "'", "é"]), min_size=1, max_size=3, unique=True))
        val = [[k, draw(_value_text())] for k in ks]
    style = "declare" if kind == "assoc" else draw(st.sampled_from(["set", "set", "set-posix", "declare"]))
    return {"name": name, "kind": kind, "value": val, "export": draw(st.booleans()), "style": style}


def _tokens_for(names, universe):
    """pattern tokens: literal (escaped) names, prefixes, alternations, classes"""
    lit = st.sampled_from(universe).map(re.escape)
    pre = st.sampled_from(["VT_.*", "VT_a.*", "VQ_.*", "vf_.*", "vf_a.*", "vq_.*", ".*_a", "V.*", "vf.*", ".*[0-9]",
                           "VT_a[0-9]", "vf_a[12]", "(?:VT|VQ)_a", "vf_(?:a|b)", "VT_a|VT_b", "nomatch", "vf.dot", "[a-z]+_a"])
    return st.lists(st.one_of(lit, lit, pre), min_size=0, max_size=3)


@st.composite
def case_strategy(draw):
    vnames = draw(st.lists(st.sampled_from(_VAR_NAMES), min_size=1, max_size=4, unique=True))
    fnames = draw(st.lists(st.sampled_from(_FUNC_NAMES), min_size=1, max_size=4, unique=True))
    vars_ = [draw(_var(n)) for n in vnames]
    funcs = [{"name": n, "body": draw(_body())} for n in fnames]
    npieces = len(vars_) + len(funcs)
    order = draw(st.permutations(list(range(npieces))))
    vt = draw(_tokens_for(vnames, _VAR_NAMES))
    ft = draw(_tokens_for(fnames, _FUNC_NAMES))
    vw = bool(vt) and draw(st.booleans())
    fw = bool(ft) and draw(st.booleans())
    return {"vars": vars_, "funcs": funcs, "order": list(order), "var_tokens": vt, "func_tokens": ft,
            "var_whitelist": vw, "func_whitelist": fw, "locale": draw(st.sampled_from(["C", "C.UTF-8"]))}


@st.composite
def values_case(draw):
    """cheap cases about variable values: 3-6 variables of all kinds/styles, one or two one-statement functions"""
    vnames = draw(st.lists(st.sampled_from(_VAR_NAMES), min_size=3, max_size=6, unique=True))
    fnames = draw(st.lists(st.sampled_from(_FUNC_NAMES), min_size=1, max_size=2, unique=True))
    vars_ = [draw(_var(n)) for n in vnames]
    funcs = [{"name": n, "body": [[draw(st.sampled_from(LEAF_IDS))]]} for n in fnames]
    order = draw(st.permutations(list(range(len(vars_) + len(funcs)))))
    vt = draw(_tokens_for(vnames, _VAR_NAMES).filter(bool))
    ft = draw(_tokens_for(fnames, _FUNC_NAMES))
    return {"vars": vars_, "funcs": funcs, "order": list(order), "var_tokens": vt, "func_tokens": ft,
            "var_whitelist": draw(st.booleans()), "func_whitelist": bool(ft) and draw(st.booleans()),
            "locale": draw(st.sampled_from(["C", "C.UTF-8"]))}


# ---------------------------------------------------------------------------------------------------------
# bash plumbing

def q(s: str) -> str:
    """harness' own ANSI-C quoting for text handed to bash (ground truth side)"""
    out = []
    for ch in s:
        o = ord(ch)
        if ch == "\\":
            out.append("\\\\")
        elif ch == "'":
            out.append("\\'")
        elif ch == "\n":
            out.append("\\n")
        elif o < 32 or o == 127:
            out.append(f"\\{o:03o}")
        else:
            out.append(ch)
    return "$'" + "".join(out) + "'"


def used_bodies(s):
    """the nested bodies of a statement that are really rendered (a nest template has one or two %B slots)"""
    if len(s) == 1:
        return []
    return [s[k] for k in (1, 2)[:max(1, NEST[s[0]].count("%B"))]]


def render_stmt(s, counter):
    if len(s) == 1:
        return LEAF[s[0]]
    tmpl = NEST[s[0]]
    counter[0] += 1
    tmpl = tmpl.replace("%N", str(counter[0]))
    bodies = [render_body(s[1], counter), render_body(s[2], counter)]
    parts = tmpl.split("%B")
    out = parts[0]
    for i, p in enumerate(parts[1:]):
        out += bodies[min(i, 1)] + p
    return out


def render_body(body, counter=None):
    counter = counter if counter is not None else [0]
    return "\n".join(render_stmt(s, counter) for s in body)


def func_source(name, body):
    return f"function {name} () {{\n{render_body(body)}\n}}"


def var_source(v):
    n = v["name"]
    if v["kind"] == "scalar":
        src = f"{n}={q(v['value'])}"
    elif v["kind"] == "array":
        src = f"{n}=({' '.join(q(e) for e in v['value'])})"
    else:
        src = f"declare -A {n}; " + "; ".join(f"{n}[{q(k)}]={q(e)}" for k, e in v["value"])
    if v["export"]:
        src += f"; export {n}"
    return src


def run_bash(script: str, locale="C", cwd=None):
    """run `script` from a file (so that `set` does not print it back as BASH_EXECUTION_STRING)"""
    env = {"PATH": "/usr/bin:/bin", "LC_ALL": locale}
    path = os.path.join(cwd, ".script.bash")
    with open(path, "w", encoding="utf8") as f:
        f.write(script)
    try:
        r = subprocess.run(["/bin/bash", "--norc", "--noprofile", path], stdin=subprocess.DEVNULL,
                           capture_output=True, env=env, cwd=cwd, timeout=BASH_TIMEOUT, start_new_session=True)
    except subprocess.TimeoutExpired:
        raise core.HarnessError("oracle bash timed out") from None
    return r


def dump_script(case):
    """bash A: define everything (each definition eval'ed on its own), print the pieces NUL-separated"""
    lines = ["("]
    for v in case["vars"]:
        lines.append(f"eval {q(var_source(v))} 2>/dev/null")
    for f in case["funcs"]:
        # some syntax errors (inside $( )) make a non-interactive bash exit: try in a sub-shell first
        d = q(func_source(f["name"], f["body"]))
        lines.append(f"__d={d}; if ( eval \"$__d\" ) >/dev/null 2>&1; then eval \"$__d\"; fi; unset -v __d")
    lines.append("printf 'S\\0'; set; printf '\\0'")
    lines.append("printf 'P\\0'; ( set -o posix; set ); printf '\\0'")
    for v in case["vars"]:
        n = v["name"]
        lines.append(f"printf 'D\\0%s\\0' {n}; declare -p {n} 2>/dev/null; printf '\\0'")
    for f in case["funcs"]:
        n = q(f["name"])
        lines.append(f"printf 'F\\0%s\\0' {n}; declare -f {n} 2>/dev/null; printf '\\0'")
    lines.append("printf 'E\\0'")
    lines.append(")")
    return "\n".join(lines) + "\n"


def parse_dump(blob: bytes, case):
    """-> list of pieces in generated order: {"kind": var|func, "name", "text", "style"}; definitions bash did not
    accept are simply absent"""
    parts = blob.split(b"\0")
    setlines, posixlines, decl, funcs = {}, {}, {}, {}
    i = 0
    while i < len(parts):
        t = parts[i]
        if t == b"S":
            # default mode: one line per variable ($'..' quoting for control characters), functions follow
            for ln in parts[i + 1].decode("utf8").split("\n"):
                if _FUNC_HEADER.match(ln):
                    break
                name, eq, _ = ln.partition("=")
                if eq:
                    setlines[name] = ln + "\n"
            i += 2
        elif t == b"P":
            posixlines = _scan_posix_set(parts[i + 1].decode("utf8"), {v["name"] for v in case["vars"]})
            i += 2
        elif t == b"D":
            if parts[i + 2]:
                decl[parts[i + 1].decode()] = parts[i + 2].decode("utf8")
            i += 3
        elif t == b"F":
            if parts[i + 2]:
                funcs[parts[i + 1].decode()] = parts[i + 2].decode("utf8")
            i += 3
        elif t == b"E":
            break
        else:
            raise core.HarnessError(f"unparsable dump stream at {i}: {parts[i][:40]!r}")
    else:
        raise core.HarnessError("dump stream has no end marker")
    cand = []
    for v in case["vars"]:
        style = effective_style(case, v)
        if style == "set":
            txt = setlines.get(v["name"])
        elif style == "set-posix":
            txt = posixlines.get(v["name"])
        elif style == "declare":
            txt = decl.get(v["name"])
        else:
            txt = None
        cand.append(None if txt is None else {"kind": "var", "name": v["name"], "text": txt, "style": style})
    for f in case["funcs"]:
        txt = funcs.get(f["name"])
        cand.append(None if txt is None else {"kind": "func", "name": f["name"], "text": txt, "style": "func"})
    return [cand[i] for i in case["order"] if i < len(cand) and cand[i] is not None]


_FUNC_HEADER = re.compile(r"^[^ =]+ \(\) $")


def _scan_posix_set(text, names):
    """`set` in posix mode prints NAME=word where word is made of bare characters, '...' segments (which may span
    lines) and \\c escapes; returns {name: full text incl. newline} for the wanted names"""
    out = {}
    pos = 0
    n = len(text)
    while pos < n:
        eq = text.find("=", pos)
        nl = text.find("\n", pos)
        if eq == -1 or (nl != -1 and nl < eq):
            if nl == -1:
                break
            pos = nl + 1
            continue
        name = text[pos:eq]
        i = eq + 1
        while i < n and text[i] != "\n":
            c = text[i]
            if c == "$" and text[i + 1:i + 2] == "'":  # $'..' (array elements): backslash escapes inside
                i += 2
                while text[i] != "'":
                    i += 2 if text[i] == "\\" else 1
                i += 1
            elif c == "'":
                i = text.index("'", i + 1) + 1
            elif c == '"':
                i += 1
                while text[i] != '"':
                    i += 2 if text[i] == "\\" else 1
                i += 1
            elif c == "\\":
                i += 2
            else:
                i += 1
        if name in names:
            out[name] = text[pos:i] + "\n"
        pos = i + 1
    return out


def effective_style(case, v):
    """`declare -p` lines are outside the statement ("plain assignments"): a variable the patterns select for removal
    is never dumped in that style (scalars/arrays fall back to a `set` line, associative arrays are left out)"""
    if v["style"] != "declare" or not case["var_tokens"]:
        return v["style"]
    m = selects(case["var_tokens"], v["name"])
    if (not m) if case["var_whitelist"] else m:
        return "set" if v["kind"] != "assoc" else None
    return "declare"


def selects(tokens, name):
    return any(re.fullmatch(t, name) is not None for t in tokens)


def expected_removed(case, piece):
    if piece["kind"] == "func":
        toks, wl = case["func_tokens"], case["func_whitelist"]
    else:
        if piece["style"] == "declare":
            return False  # not a plain assignment: must slide through untouched
        toks, wl = case["var_tokens"], case["var_whitelist"]
    if not toks:
        return False
    m = selects(toks, piece["name"])
    return (not m) if wl else m


def normalise(text: str) -> str:
    return re.sub(r"\n+", "\n", text).strip("\n")


def run_filter(dump, case):
    from pkgcore.ebuild import filter_env

    out = io.BytesIO()
    filter_env.main_run(out, dump, list(case["var_tokens"]), list(case["func_tokens"]),
                        case["var_whitelist"], case["func_whitelist"])
    return out.getvalue()


def judge_script(names_v, names_f, orig_path, filt_path):
    """bash B: source original / filtered dump in separate sub-shells and describe the resulting state"""
    def block(tag, path):
        lines = [f"( printf '{tag}\\0'; source '{path}' 2>'{path}.err' </dev/null >/dev/null; printf '%s\\0' \"$?\""]
        for n in names_v:
            lines.append(f"printf 'v\\0%s\\0' {n}; declare -p {n} 2>/dev/null; printf '\\0'")
        for n in names_f:
            lines.append(f"printf 'f\\0%s\\0' {q(n)}; declare -f {q(n)} 2>/dev/null; printf '\\0'")
        lines.append("printf 'E\\0' )")
        return "\n".join(lines)
    return block("O", orig_path) + "\n" + block("N", filt_path) + "\n"


def parse_judge(blob: bytes):
    parts = blob.split(b"\0")
    res = {}
    i = 0
    cur = None
    while i < len(parts):
        t = parts[i]
        if t in (b"O", b"N"):
            cur = res[t.decode()] = {"status": parts[i + 1].decode(), "v": {}, "f": {}}
            i += 2
        elif t in (b"v", b"f"):
            cur[t.decode()][parts[i + 1].decode()] = parts[i + 2]
            i += 3
        elif t == b"E":
            i += 1
        elif t == b"" and i == len(parts) - 1:
            break
        else:
            raise core.HarnessError(f"unparsable judge stream at {i}: {parts[i][:60]!r}")
    return res


# ---------------------------------------------------------------------------------------------------------

def classify(case, pieces):
    cl = {f"locale:{case['locale']}"}
    cl.add("mode:vars-" + ("whitelist" if case["var_whitelist"] else "blacklist" if case["var_tokens"] else "off"))
    cl.add("mode:funcs-" + ("whitelist" if case["func_whitelist"] else "blacklist" if case["func_tokens"] else "off"))
    ids = set()

    def walk(b):
        for s in b:
            ids.add(s[0])
            for sub in used_bodies(s):
                walk(sub)
    for f in case["funcs"]:
        walk(f["body"])
    for i in ids:
        if i.startswith("heredoc") or i == "comsub_heredoc":
            cl.add("stmt:heredoc")
        elif i.startswith("pe_"):
            cl.add("stmt:param-expansion")
        elif i.startswith("case") or i == "comsub_case":
            cl.add("stmt:case")
        elif i in NEST:
            cl.add("stmt:nested")
    for p in pieces:
        cl.add(f"piece:{p['style']}")
    for v in case["vars"]:
        cl.add(f"var:{v['kind']}")
    return cl


def is_nontrivial(case, pieces):
    seen_tricky = False
    for p in pieces:
        if seen_tricky and not expected_removed(case, p):
            return True
        if p["kind"] == "func" and TRICKY.search(p["text"].split("\n", 2)[-1]):
            seen_tricky = True
        if p["kind"] == "var" and VAR_TRICKY.search(p["text"]):
            seen_tricky = True
    return False


def stage_filter(ctx, case, pieces, workdir, tag, record=True):
    """record the case, run the filter, apply the reference-text oracle, write the files for the judge.
    Returns a state dict, or None if the filter crashed (recorded)."""
    dump = "".join(p["text"] for p in pieces)
    if record:
        cl = classify(case, pieces)
        removed = [p for p in pieces if expected_removed(case, p)]
        if removed:
            cl.add("removes_something")
        if len(removed) < len(pieces):
            cl.add("keeps_something")
        ctx.case(case, nontrivial=is_nontrivial(case, pieces), classes=sorted(cl))
    res = core.guarded(ctx, case, lambda: run_filter(dump, case))
    if core.crashed(res):
        return None
    problems = []
    want = "".join(p["text"] for p in pieces if not expected_removed(case, p))
    try:
        got = res.decode("utf8")
    except UnicodeDecodeError:
        got = res.decode("utf8", "replace")
        problems.append(("output", "output is not valid UTF-8"))
    if "\0" in got:
        problems.append(("stray-nul", f"output contains NUL byte(s) at offset {got.index(chr(0))} of {len(got)}"))
    if normalise(got.replace("\0", "")) != normalise(want):
        problems.append(("text", _textdiff(normalise(want), normalise(got))))
    orig_p = os.path.join(workdir, f"{tag}.orig")
    filt_p = os.path.join(workdir, f"{tag}.filt")
    with open(orig_p, "w", encoding="utf8") as f:
        f.write(dump)
    with open(filt_p, "wb") as f:
        f.write(res)
    return {"case": case, "pieces": pieces, "problems": problems, "orig": orig_p, "filt": filt_p,
            "vn": sorted({p["name"] for p in pieces if p["kind"] == "var"}),
            "fn": sorted({p["name"] for p in pieces if p["kind"] == "func"})}


def stage_compare(ctx, st_, j, workdir, isolate=True):
    """differential oracle on the judge's report `j` for one case; records the violation(s); returns the buckets"""
    case, pieces, problems = st_["case"], st_["pieces"], st_["problems"]
    reported = set()
    if "O" not in j or "N" not in j:
        raise core.HarnessError("judge bash gave no result for a case")
    with open(st_["orig"] + ".err", "rb") as f:
        oerr = f.read()
    with open(st_["filt"] + ".err", "rb") as f:
        nerr = f.read()
    if oerr.strip() or j["O"]["status"] != "0":
        # the unfiltered dump itself does not source cleanly: bash wrote something bash cannot read back
        # (not pkgcore's problem) -> only the reference-text oracle applies
        ctx.count("orig_dump_not_sourceable")
    else:
        if nerr.strip() or j["N"]["status"] != "0":
            problems.append(("source", f"filtered text does not source cleanly: status {j['N']['status']}, "
                                       f"stderr {nerr[-200:]!r}"))
        for kind, names in (("v", st_["vn"]), ("f", st_["fn"])):
            for n in names:
                o, nw = j["O"][kind].get(n, b""), j["N"][kind].get(n, b"")
                surv = [p for p in pieces if p["name"] == n and p["kind"] == ("var" if kind == "v" else "func")]
                should_exist = any(not expected_removed(case, p) for p in surv)
                if should_exist and o and nw != o:
                    problems.append(("survivor", f"{'variable' if kind == 'v' else 'function'} {n} "
                                                 f"{'lost' if not nw else 'changed'}: was {o[:120]!r} now {nw[:120]!r}"))
                if not should_exist and nw:
                    problems.append(("not-removed", f"{'variable' if kind == 'v' else 'function'} {n} still defined "
                                                    f"after filtering: {nw[:120]!r}"))
    if problems:
        causes = isolate_cause(case, pieces, workdir) if isolate else ["unisolated"]
        msg = "; ".join(f"[{k}] {m}" for k, m in problems)[:900]
        for cause in causes:
            bucket = (cause if cause.startswith("selection:") else "wrong-output:not-isolated" if cause == "not-isolated"
                      else f"parse-derailed:{cause}")
            reported.add(bucket)
            ctx.violation(bucket, case, msg)
    return reported


def evaluate_many(ctx, items, workdir, record=True, isolate=True):
    """items = [(case, pieces, tag)]: filter each, ONE judge bash per locale for all of them, compare each.
    Returns the list of bucket sets."""
    states = [stage_filter(ctx, c, ps, workdir, tag, record=record) for c, ps, tag in items]
    out = [({"crash"} if st_ is None else None) for st_ in states]
    by_loc = {}
    for k, st_ in enumerate(states):
        if st_ is not None:
            by_loc.setdefault(st_["case"]["locale"], []).append(k)
    for loc, idxs in by_loc.items():
        script = "".join("printf 'CASE\\0'\n" + judge_script(states[k]["vn"], states[k]["fn"], states[k]["orig"],
                                                             states[k]["filt"]) for k in idxs)
        r = run_bash(script, locale=loc, cwd=workdir)
        chunks = r.stdout.split(b"CASE\0")[1:]
        if len(chunks) != len(idxs):
            raise core.HarnessError(f"judge bash returned {len(chunks)} chunks for {len(idxs)} cases: {r.stderr[-300:]!r}")
        for k, ch in zip(idxs, chunks):
            out[k] = stage_compare(ctx, states[k], parse_judge(ch), workdir, isolate=isolate)
    return out


def evaluate(ctx, case, pieces, workdir, tag, record=True, isolate=True):
    """filter + both oracles for one case whose pieces are already known. Returns set of buckets."""
    return evaluate_many(ctx, [(case, pieces, tag)], workdir, record=record, isolate=isolate)[0]


def _textdiff(want, got):
    i = 0
    while i < min(len(want), len(got)) and want[i] == got[i]:
        i += 1
    return (f"filtered text differs from the surviving pieces at offset {i}: expected ...{want[max(0, i - 30):i + 60]!r} "
            f"got ...{got[max(0, i - 30):i + 60]!r} (lengths {len(want)}/{len(got)})")


_ISOLATED = {}  # (context, template id, locale) -> bool, per worker process


def _breaks(text):
    """does `text`, put in front of sentinel definitions, derail the filter?  (a) keep it, remove the sentinels;
    (b) if it is a function: remove it, keep the sentinels"""
    from pkgcore.ebuild import filter_env

    tail = "VT_sentinel=1\nvf_sentinel () \n{ \n    :\n}\nVT_keep=2\n"
    out = io.BytesIO()
    try:
        filter_env.main_run(out, text + tail, ["VT_sentinel"], ["vf_sentinel"])
        if normalise(out.getvalue().decode("utf8", "replace")) != normalise(text + "VT_keep=2"):
            return True
        m = _FUNC_HEADER.match(text.split("\n", 1)[0])
        if m:
            out = io.BytesIO()
            filter_env.main_run(out, text + tail, [], [re.escape(text.split(" ", 1)[0])])
            return normalise(out.getvalue().decode("utf8", "replace")) != normalise(tail)
        m = re.match(r"^([A-Za-z_][A-Za-z0-9_]*)=", text)
        if m:  # a plain assignment: remove it, keep the sentinels
            out = io.BytesIO()
            filter_env.main_run(out, text + tail, [m.group(1)], [])
            return normalise(out.getvalue().decode("utf8", "replace")) != normalise(tail)
    except Exception:  # noqa: BLE001
        return True
    return False


def _inner_context(ctx_, nest_id):
    """how the filter walks the body of a nest: inside a `{ }` group / `( )` sub-shell everything (nested functions,
    loops, ...) is walked by the raw walker; only `$( )` hands control back to the full command parser"""
    if nest_id == "comsub_block":
        return "top"
    if ctx_ != "top":
        return ctx_
    return {"group": "group", "group_redirect": "group", "subshell": "subshell"}.get(nest_id, "top")


def heredoc_in_raw_context(body, ctx_="top"):
    """(context, leaf id) of the first here-document leaf of a statement tree that sits inside a group / sub-shell"""
    for s in body:
        if len(s) == 1:
            if ctx_ != "top" and _leaf_class(s[0]) == "heredoc":
                return ctx_, s[0]
        else:
            inner = _inner_context(ctx_, s[0])
            for sub in used_bodies(s):
                hit = heredoc_in_raw_context(sub, inner)
                if hit:
                    return hit
    return None


def isolate_cause(case, pieces, workdir):
    """root-cause keys: every statement template (rebuilt by bash as a one-statement function) / variable line of
    the case that derails the filter on its own, in front of sentinel definitions"""
    # controls: if a trivial definition already derails the filter the defect is global, not tied to a construct
    if _breaks("vf_ctl () \n{ \n    :\n}\n"):
        return ["global:trivial-function"]
    if _breaks("VT_ctl=1\n"):
        return ["global:trivial-assignment"]
    culprits = set()
    for p in pieces:
        if p["kind"] == "var" and _breaks(p["text"]):
            culprits.add(f"var-line:{p['style']}:{_value_feature(p['text'])}")
    occ = set()  # (context, id): context = innermost enclosing raw-walked construct of the occurrence

    def walk(b, ctx_):
        for s in b:
            occ.add((ctx_, s[0]))
            if len(s) > 1:
                inner = _inner_context(ctx_, s[0])
                for sub in used_bodies(s):
                    walk(sub, inner)
    for f in case["funcs"]:
        walk(f["body"], "top")
    loc = case["locale"]
    wrap = {"top": "%s", "group": "{\n%s\n}", "subshell": "(\n%s\n)"}
    todo = sorted((c, i) for c, i in {(c, i) for _, i in occ for c in wrap} if (c, i, loc) not in _ISOLATED)
    if todo:
        script = []
        for k, (c, i) in enumerate(todo):
            src = LEAF[i] if i in LEAF else NEST[i].replace("%N", "0").replace("%B", ":")
            d = q("function vf_x () {\n" + wrap[c] % src + "\n}")
            script.append(f"( __d={d}; if ( eval \"$__d\" ) >/dev/null 2>&1; then eval \"$__d\"; fi; "
                          f"printf '%s\\0' {k}; declare -f vf_x 2>/dev/null; printf '\\0' )")
        r = run_bash("\n".join(script) + "\n", locale=loc, cwd=workdir)
        parts = r.stdout.split(b"\0")
        for k in range(0, len(parts) - 1, 2):
            txt = parts[k + 1].decode("utf8")
            c, i = todo[int(parts[k])]
            _ISOLATED[(c, i, loc)] = bool(txt) and _breaks(txt)
    for c, i in sorted(occ):
        if _ISOLATED.get(("top", i, loc)):
            culprits.add("stmt:" + i)
        elif c != "top" and _ISOLATED.get((c, i, loc)):
            culprits.add(f"stmt-in-{c}:{i}")
    if not culprits:
        sel = _selection_disagreement(case, pieces)
        if sel:
            return [sel]
        for f in case["funcs"]:
            txt = next((p["text"] for p in pieces if p["kind"] == "func" and p["name"] == f["name"]), None)
            if txt is not None and _breaks(txt):
                if _breaks(f"{f['name']} () \n{{ \n    :\n}}\n"):  # the name itself, not the body
                    return ["function-name:" + ("".join(sorted(set(re.sub(r"\w", "", f["name"])))) or "identifier")]
                small = minimise_body(f["body"], loc, workdir)
                # 1-minimal: every statement and every nest left is needed.  If that includes a here-document
                # inside a group / sub-shell the root cause is the raw walker's missing here-doc support
                hit = heredoc_in_raw_context(small)
                if hit:
                    return [f"stmt-in-{hit[0]}:{hit[1]}"]
                return ["min:" + signature(small)]
        return ["not-isolated"]
    return sorted(culprits)


def _selection_disagreement(case, pieces):
    """does pkgcore's compiled matcher select other names than `any(fullmatch(token))`?"""
    from pkgcore.ebuild import filter_env

    for kind, toks, wl in (("var", case["var_tokens"], case["var_whitelist"]),
                           ("func", case["func_tokens"], case["func_whitelist"])):
        if not toks:
            continue
        m = filter_env.build_regex_string(list(toks), invert=wl).match
        for p in pieces:
            if p["kind"] == kind and p["style"] != "declare":
                want = selects(toks, p["name"])
                want = (not want) if wl else want
                if bool(m(p["name"])) != want:
                    lone_alt = len([t for t in toks if t]) == 1 and "|" in re.sub(r"\(\?:[^()]*\)", "", toks[0])
                    return "selection:" + ("single-token-top-level-alternation" if lone_alt else "other")
    return None


def _reductions(body):
    """all bodies obtained by one reduction step: drop a statement, or replace a nest by one of its bodies"""
    out = []
    for j, st_ in enumerate(body):
        if len(body) > 1:
            out.append(body[:j] + body[j + 1:])
        if len(st_) > 1:
            used = NEST[st_[0]].count("%B")
            out.append(body[:j] + st_[1] + body[j + 1:])
            if used > 1:
                out.append(body[:j] + st_[2] + body[j + 1:])
            for k in (1, 2)[:max(1, used)]:
                for sub in _reductions(st_[k]):
                    ns = list(st_)
                    ns[k] = sub
                    out.append(body[:j] + [ns] + body[j + 1:])
    return out


def minimise_body(body, loc, workdir, rounds=14, width=80):
    """greedy 1-minimal statement tree that still derails the filter (each round: one bash dumping all candidates)"""
    best = body
    for _ in range(rounds):
        cands = sorted(_reductions(best), key=lambda b: len(core.jdump(b)))[:width]
        if not cands:
            break
        script = []
        for k, b in enumerate(cands):
            d = q(func_source("vf_x", b))
            script.append(f"( __d={d}; if ( eval \"$__d\" ) >/dev/null 2>&1; then eval \"$__d\"; fi; "
                          f"printf '%s\\0' {k}; declare -f vf_x 2>/dev/null; printf '\\0' )")
        r = run_bash("\n".join(script) + "\n", locale=loc, cwd=workdir)
        parts = r.stdout.split(b"\0")
        hit = None
        for k in range(0, len(parts) - 1, 2):
            txt = parts[k + 1].decode("utf8")
            if txt and _breaks(txt):
                hit = cands[int(parts[k])]
                break
        if hit is None:
            break
        best = hit
    return best


def _leaf_class(i):
    if i.startswith("heredoc") or i == "comsub_heredoc":
        return "heredoc"
    if i.startswith("case") or i == "comsub_case":
        return "case"
    src = LEAF[i]
    if re.match(r"^(local )?[a-z]=", src):
        return "assign"
    return "cmd"


def signature(body):
    def one(st_):
        if len(st_) == 1:
            return _leaf_class(st_[0])
        used = NEST[st_[0]].count("%B")
        inner = "|".join(signature(st_[k]) for k in (1, 2)[:max(1, used)])
        return f"{st_[0]}({inner})"
    return ";".join(one(x) for x in body)


def _value_feature(text):
    if re.search(r"[^\S \t\n]", text):
        return "non-blank-whitespace"  # \r, \f, \v, NBSP, U+2028 ...: str.isspace() but no word separator for bash
    for ch, nm in (("$'", "ansi-c"), ("(", "array"), ('"', "dquote"), ("'", "squote")):
        if ch in text:
            return nm
    return "bare"


# ---------------------------------------------------------------------------------------------------------

def process_batch(ctx, cases, workdir, base):
    """one dump-writer bash for the whole batch, then per case filter + judge"""
    by_loc = {}
    for i, c in enumerate(cases):
        by_loc.setdefault(c["locale"], []).append(i)
    pieces = {}
    for loc, idxs in by_loc.items():
        script = "".join(f"printf 'CASE\\0'\n{dump_script(cases[i])}" for i in idxs)
        r = run_bash(script, locale=loc, cwd=workdir)
        chunks = r.stdout.split(b"CASE\0")[1:]
        if len(chunks) != len(idxs):
            raise core.HarnessError(f"dump bash returned {len(chunks)} chunks for {len(idxs)} cases: {r.stderr[-300:]!r}")
        for i, ch in zip(idxs, chunks):
            try:
                pieces[i] = parse_dump(ch, cases[i])
            except core.HarnessError as e:
                raise core.HarnessError(f"{e}; case {core.jdump(cases[i])}; stderr {r.stderr[-300:]!r}") from None
    items = []
    for i, c in enumerate(cases):
        if not pieces[i]:
            ctx.count("empty_dump")
            continue
        items.append((c, pieces[i], f"{base}-{i}"))
    evaluate_many(ctx, items, workdir)


def plan(tier, seed):
    # cheap first: "values" cases (variable lines + one-statement functions, ~half the cost) before the full grammar,
    # so that a budget-truncated run has at least covered every value/quoting class
    if tier == "quick":
        return ([{"task": "values", "examples": 300} for _ in range(4)]
                + [{"task": "hyp", "examples": 150} for _ in range(12)])
    return ([{"task": "values", "examples": 4000} for _ in range(8)]
            + [{"task": "hyp", "examples": 4000} for _ in range(24)])


def run_task(ctx, task, **kw):
    if task not in ("hyp", "values"):
        raise core.HarnessError(f"unknown task {task}")
    strategy = case_strategy() if task == "hyp" else values_case()
    workdir = ctx.fresh_dir("c34")
    pending = []
    n = [0]

    def flush():
        if pending:
            n[0] += 1
            process_batch(ctx, list(pending), workdir, f"b{n[0]}")
            pending.clear()
            for fn in os.listdir(workdir):
                os.unlink(os.path.join(workdir, fn))

    def f(c):
        if ctx.out_of_time():
            return
        pending.append(c)
        if len(pending) >= BATCH:
            flush()

    core.hyp_run(ctx, strategy, f, kw["examples"], chunk=BATCH * 2)
    flush()


def replay(ctx, case):
    workdir = ctx.fresh_dir("c34")
    if "pieces" in case:  # minimal replay: the bash-written pieces are stored verbatim
        evaluate(ctx, case, case["pieces"], workdir, "replay", isolate=True)
        return
    process_batch(ctx, [case], workdir, "replay")


def shrink_case(ctx, bucket, case):
    """drop functions / variables / statements while the same bucket is reported"""
    workdir = ctx.fresh_dir("c34s")
    quiet = core.Ctx(ctx.pid, ctx.tier, ctx.seed)

    def hits(c):
        try:
            r = run_bash("printf 'CASE\\0'\n" + dump_script(c), locale=c["locale"], cwd=workdir)
            ch = r.stdout.split(b"CASE\0")[1:]
            if len(ch) != 1:
                return False
            ps = parse_dump(ch[0], c)
            if not ps:
                return False
            return bucket in evaluate(quiet, c, ps, workdir, "s", record=False)
        except core.HarnessError:
            return False

    try:
        best = case
        if "pieces" in case or not hits(best):
            return None
        budget = [60]
        t_end = time.time() + 60
        changed = True
        while changed and budget[0] > 0 and time.time() < t_end:
            changed = False
            cands = []
            for k in range(len(best["funcs"])):
                if len(best["funcs"]) > 1:
                    nv = len(best["vars"])
                    order = [i if i < nv + k else i - 1 for i in best["order"] if i != nv + k]
                    cands.append(dict(best, funcs=best["funcs"][:k] + best["funcs"][k + 1:], order=order))
            for k in range(len(best["vars"])):
                if len(best["vars"]) > 1:
                    order = [i if i < k else i - 1 for i in best["order"] if i != k]
                    cands.append(dict(best, vars=best["vars"][:k] + best["vars"][k + 1:], order=order))
            for k, f in enumerate(best["funcs"]):
                for j in range(len(f["body"])):
                    if len(f["body"]) > 1:
                        nf = dict(f, body=f["body"][:j] + f["body"][j + 1:])
                        cands.append(dict(best, funcs=best["funcs"][:k] + [nf] + best["funcs"][k + 1:]))
                    s = f["body"][j]
                    if len(s) > 1:  # replace a nest by its first body
                        nf = dict(f, body=f["body"][:j] + s[1] + f["body"][j + 1:])
                        cands.append(dict(best, funcs=best["funcs"][:k] + [nf] + best["funcs"][k + 1:]))
            for k, v in enumerate(best["vars"]):
                if v["value"] not in ("", []) and v["kind"] != "assoc":
                    nv_ = dict(v, value="" if v["kind"] == "scalar" else [])
                    cands.append(dict(best, vars=best["vars"][:k] + [nv_] + best["vars"][k + 1:]))
            for c in cands:
                budget[0] -= 1
                if budget[0] <= 0:
                    break
                if hits(c):
                    best = c
                    changed = True
                    break
        return best
    finally:
        quiet.cleanup()
