"""C43 Config section inheritance resolves to the nearest definition.

Generated: 1..3 config sources (dicts name -> section; later sources override earlier ones for the same
name), sections s0..s6 each present in 1..3 sources ("layers"), keys k0..k3 (str), kl (list), `class`
(two configurable callables of this module), `default` (bool), `inherit-only` on non-root base sections.
The inheritance graph over (name, layer) nodes is *tree shaped by construction* (every name is the
non-self inherit target of at most one node), then optionally damaged by: a back edge to an ancestor
(cycle), an inherit of a name that exists nowhere (missing), a self-inherit with no earlier layer
(missing), and - rarely, class `diamond`, never asserted - a second edge to an already used name.
Sections are HardCodedConfigSection (python values) or ConfigSectionFromStringDict (strings) per case;
sources are handed to ConfigManager([...]) or added one by one with add_config_source().

Oracle (`resolve`, written from the statement): breadth-first list of (name, layer) nodes starting at the
newest layer of the root; a self-inherit continues with the next older layer of the same name, any other
inherit with the newest layer of the target; for every key the first node in that list defining it wins.
Reachable cycle / missing target / no `class` anywhere => ConfigurationError expected.  Every section
of a case is collapsed as a root (collapse_named_section) and compared: config dict, type callable, default.

Histories (task family "hist"): one live ConfigManager is built from the first k sources, a subset of the
sections is collapsed, the next source is added with add_config_source(), sections are collapsed again, ...;
every collapse is compared with the reference computed over the sources present *at that moment* (a later
source overrides earlier ones also when it arrives after a collapse).  Buckets `late-source:stale-collapse`
(result still the one for the earlier source set) and `late-source:add-raised`.

Diamonds (a name reachable twice without being its own ancestor) are outside the statement's quantifier
("tree-shaped and cyclic"): pkgcore reports them as recursive; the check accepts either outcome there.
"""
from __future__ import annotations

import random

from hypothesis import strategies as st

from .. import core

ID = "C43"
TITLE = "Config section inheritance resolves to the nearest definition"
LEVEL = "exploration"
TECHNIQUE = "differential vs. independent breadth-first reference on generated multi-source inheritance graphs"
DESIGN_REF = "DESIGN.md §3 C43"
LEVEL_TEXT = (
    "Generated inheritance graphs (trees, chains, self-inherits across 1..3 config sources, cycles, missing targets) "
    "collapsed through ConfigManager.collapse_named_section for every section as root and compared with an "
    "independent breadth-first nearest-definition reference."
)
LEVEL_NOTE = "Trusted: the reference resolver in this module. Search, not proof."
RULE = (
    "one hypothesis-drawn integer seeds the graph generator; one evaluation = one (case, root section); non-trivial = "
    "the root's resolution visits >= 3 nodes and some key's value comes from an inherited node although a farther node "
    "defines it too (shadowing), or the graph has a reachable cycle/missing target, or (histories: construct with k "
    "sources, collapse, add_config_source, collapse again) a re-collapse whose expected result changed through the late "
    "source; distinct = canonical JSON of (sources present, root, history, step)"
)
ASSUMPTIONS = [
    "later config sources override earlier ones for the same section name (statement)",
    "a self-inherit refers to the same name in the next earlier source that defines it",
]
BUDGET = {"quick": 50, "thorough": 800}

KEYS = ["k0", "k1", "k2", "k3"]


def kls_a(k0=None, k1=None, k2=None, k3=None, kl=None):
    return ("a", k0, k1, k2, k3, kl)


def kls_b(k0=None, k1=None, k2=None, k3=None, kl=None):
    return ("b", k0, k1, k2, k3, kl)


def _decorate():
    from pkgcore.config.hint import ConfigHint

    types = {k: "str" for k in KEYS}
    types["kl"] = "list"
    kls_a.pkgcore_config_type = ConfigHint(types=dict(types), typename="c43a")
    kls_b.pkgcore_config_type = ConfigHint(types=dict(types), typename="c43b")


# ---- generator ---------------------------------------------------------------------------------


def gen_case(seed):
    rnd = random.Random(seed)
    nsrc = rnd.choice([1, 2, 2, 3, 3])
    nsec = rnd.choice([2, 3, 4, 5, 6, 7])
    names = [f"s{i}" for i in range(nsec)]
    # layers[name] = sorted list of source indexes that define the name
    layers = {n: sorted(rnd.sample(range(nsrc), rnd.randint(1, nsrc))) for n in names}
    # tree: parent of s_i is a random node among s_0..s_{i-1} (any of its layers) or none (forest)
    sec = {(n, s): {"inherit": []} for n in names for s in layers[n]}
    parent = {}
    for i, n in enumerate(names[1:], 1):
        if rnd.random() < 0.85:
            p = names[rnd.randrange(i)]
            ps = rnd.choice(layers[p])
            sec[(p, ps)]["inherit"].append(n)
            parent[n] = p
    # self-inherits: a layer may continue into the older layer of the same name
    for n in names:
        for s in layers[n]:
            older = [x for x in layers[n] if x < s]
            if older and rnd.random() < 0.6:
                sec[(n, s)]["inherit"].insert(rnd.randrange(len(sec[(n, s)]["inherit"]) + 1), n)
    damage = rnd.random()
    kind = "clean"
    if damage < 0.12:
        # back edge to an ancestor (or self's parent chain) -> cycle
        n = rnd.choice(names)
        anc = []
        x = n
        while x in parent:
            x = parent[x]
            anc.append(x)
        if anc:
            sec[(n, rnd.choice(layers[n]))]["inherit"].append(rnd.choice(anc))
            kind = "cycle"
    elif damage < 0.22:
        n = rnd.choice(names)
        sec[(n, rnd.choice(layers[n]))]["inherit"].append("nowhere")
        kind = "missing"
    elif damage < 0.30:
        n = rnd.choice(names)
        s = layers[n][0]  # oldest layer: nothing left to self-inherit from
        sec[(n, s)]["inherit"].append(n)
        kind = "self-missing"
    elif damage < 0.34 and len(names) > 2:
        n = rnd.choice(names)
        t = rnd.choice([x for x in names if x != n])
        sec[(n, rnd.choice(layers[n]))]["inherit"].append(t)
        kind = "maybe-diamond"
    for (n, s), d in sec.items():
        if rnd.random() < 0.3:
            rnd.shuffle(d["inherit"])
        for k in KEYS:
            if rnd.random() < 0.35:
                d[k] = f"{n}.{s}.{k}"
        if rnd.random() < 0.25:
            d["kl"] = [f"{n}.{s}.l{j}" for j in range(rnd.randint(0, 2))]
        if rnd.random() < (0.75 if not d["inherit"] else 0.3):
            d["class"] = rnd.choice(["kls_a", "kls_b"])
        if rnd.random() < 0.1:
            d["default"] = rnd.random() < 0.5
        if not d["inherit"]:
            del d["inherit"]
    # inherit-only base sections (never roots): newest layer of a name that is somebody's target
    for n in names:
        if n in parent and rnd.random() < 0.15:
            sec[(n, layers[n][-1])]["inherit-only"] = True
    sources = [{} for _ in range(nsrc)]
    for (n, s), d in sec.items():
        sources[s][n] = d
    return {
        "sources": sources,
        "style": rnd.choice(["hard", "string"]),
        "add_later": rnd.random() < 0.3,
        "kind": kind,
    }


def case_strategy():
    return st.integers(0, 2**48).map(gen_case)


# ---- reference ---------------------------------------------------------------------------------


def resolve(sources, root):
    """-> dict(error=None|'cycle'|'missing'|'self-missing'|'no-class', diamond=bool, order=[(name, src)],
    values={key: value}, shadowed=bool)"""

    def stack(name):
        return [i for i in range(len(sources) - 1, -1, -1) if name in sources[i]]

    out = {"error": None, "diamond": False, "order": [], "values": {}, "shadowed": False}
    queue = [(root, stack(root), (root,))]
    seen = {root}
    qi = 0
    while qi < len(queue):
        name, st_, anc = queue[qi]
        qi += 1
        out["order"].append((name, st_[0]))
        section = sources[st_[0]][name]
        for inh in section.get("inherit", []):
            if inh == name:
                if len(st_) == 1:
                    out["error"] = out["error"] or "self-missing"
                    continue
                queue.append((inh, st_[1:], anc))
                continue
            if inh in anc:
                out["error"] = out["error"] or "cycle"
                continue
            if inh in seen:
                out["diamond"] = True
                continue
            s2 = stack(inh)
            if not s2:
                out["error"] = out["error"] or "missing"
                continue
            seen.add(inh)
            queue.append((inh, s2, anc + (inh,)))
    for name, si in out["order"]:
        for k, v in sources[si][name].items():
            if k in ("inherit", "inherit-only"):
                continue
            if k in out["values"]:
                out["shadowed"] = True
            else:
                out["values"][k] = v
    if out["error"] is None and "class" not in out["values"]:
        out["error"] = "no-class"
    return out


# ---- check -------------------------------------------------------------------------------------


class Env:
    def __init__(self):
        from pkgcore.config import basics, central, errors

        _decorate()
        self.basics, self.central, self.errors = basics, central, errors

    def build_sources(self, case):
        b = self.basics
        srcs = []
        for src in case["sources"]:
            d = {}
            for name, sec in src.items():
                if case["style"] == "hard":
                    conv = dict(sec)
                    if "class" in conv:
                        conv["class"] = globals()[conv["class"]]
                    d[name] = b.HardCodedConfigSection(conv)
                else:
                    conv = {}
                    for k, v in sec.items():
                        if k == "class":
                            conv[k] = f"vf.props.c43.{v}"
                        elif isinstance(v, bool):
                            conv[k] = "true" if v else "false"
                        elif isinstance(v, list):
                            conv[k] = " ".join(v)
                        else:
                            conv[k] = v
                    d[name] = b.ConfigSectionFromStringDict(conv)
            srcs.append(d)
        return srcs

    def manager(self, case):
        srcs = self.build_sources(case)
        if case["add_later"] and len(srcs) > 1:
            m = self.central.ConfigManager(srcs[:1])
            for s in srcs[1:]:
                m.add_config_source(s)
            return m
        return self.central.ConfigManager(srcs)


def _chain(exc):
    out = []
    while exc is not None:
        out.append(str(exc))
        exc = exc.__cause__
    return " <- ".join(out)


def check(ctx, env, case, record=True, only_root=None):
    """all sources known up front (or added before the first collapse): every section collapsed as a root"""
    sources = case["sources"]
    names = sorted({n for s in sources for n in s})
    mgr = core.guarded(ctx, case, lambda: env.manager(case))
    if core.crashed(mgr):
        return
    for root in names:
        if only_root is not None and root != only_root:
            continue
        check_root(ctx, env, mgr, sources, root, {"root": root, **case}, case["style"], record)


def gen_history(seed):
    """case + a history on one live manager: construct with the first k sources, then collapse a subset of the
    sections / add the next source, ..., finally collapse everything"""
    case = gen_case(seed)
    rnd = random.Random(seed ^ 0x5DEECE66D)
    nsrc = len(case["sources"])
    names = sorted({n for s in case["sources"] for n in s})
    k = rnd.randint(1, max(1, nsrc - 1)) if nsrc > 1 else 1
    hist = []
    for i in range(k, nsrc + 1):
        roots = [n for n in names if rnd.random() < 0.6]
        if i == nsrc:
            roots = list(names)
        rnd.shuffle(roots)
        hist.append(["collapse", roots])
        if i < nsrc:
            hist.append(["add"])
    case.pop("add_later", None)
    case["initial"] = k
    case["history"] = hist
    return case


def history_strategy():
    return st.integers(0, 2**48).map(gen_history)


def check_history(ctx, env, case, record=True):
    """every collapse is compared with the reference computed over the sources present at that moment"""
    allsrc = case["sources"]
    built = core.guarded(ctx, case, lambda: env.build_sources(case))
    if core.crashed(built):
        return
    present = case["initial"]
    mgr = core.guarded(ctx, case, lambda: env.central.ConfigManager(built[:present]))
    if core.crashed(mgr):
        return
    collapsed_with = {}  # root -> number of sources present when it was last collapsed
    for step, op in enumerate(case["history"]):
        if op[0] == "add":
            if present >= len(allsrc):
                continue
            try:
                r = core.guarded(ctx, case, lambda: mgr.add_config_source(built[present]), expected=(env.errors.ConfigurationError,))
            except env.errors.ConfigurationError as e:
                ctx.violation("late-source:add-raised", case, f"step {step}: add_config_source(source {present}) raised {_chain(e)}")
                return
            if core.crashed(r):
                return
            present += 1
            continue
        sources = allsrc[:present]
        for root in op[1]:
            if not any(root in s_ for s_ in sources):
                continue  # not defined yet
            extra = ["history"]
            prev = collapsed_with.get(root)
            if prev is not None and prev < present:
                extra.append("recollapse_after_late_source")
                before = resolve(allsrc[:prev], root)
                onames = {n for n, _ in before["order"]}
                added = set().union(*[set(s_) for s_ in allsrc[prev:present]])
                if (onames - {root}) & added:
                    extra.append("collapse_after_late_source_overriding_inherited")
                if root in added:
                    extra.append("collapse_after_late_source_overriding_self")
                now = resolve(sources, root)
                if _observable(now) != _observable(before):
                    extra.append("late_source_changes_result")
            rcase = {"root": root, "step": step, **case}
            check_root(ctx, env, mgr, sources, root, rcase, case["style"], record, extra,
                       prev_sources=allsrc[:prev] if prev is not None and prev < present else None)
            collapsed_with[root] = present


def _observable(ref):
    if ref["error"] or ref["diamond"]:
        return ("error", ref["error"], ref["diamond"])
    v = dict(ref["values"])
    return (v.pop("class"), bool(v.pop("default", False)), sorted(v.items()))


def check_root(ctx, env, mgr, sources, root, rcase, style, record=True, extra=(), prev_sources=None):
    newest = [i for i in range(len(sources) - 1, -1, -1) if root in sources[i]][0]
    if sources[newest][root].get("inherit-only"):
        return
    ref = resolve(sources, root)
    classes = ["style_" + style, "nsrc_%d" % len(sources)] + list(extra)
    if ref["diamond"]:
        classes.append("diamond")
    if ref["error"]:
        classes.append("expect_" + ref["error"])
    onames = [n for n, _ in ref["order"]]
    if len(set(onames)) < len(onames):
        classes.append("self_inherit_followed")
    if ref["shadowed"]:
        classes.append("shadowing")
    if len(ref["order"]) >= 4:
        classes.append("deep")
    # BFS vs DFS distinguishing: does a depth-first order pick a different value for some key?
    if not ref["error"] and not ref["diamond"] and _dfs_values(sources, root) != ref["values"]:
        classes.append("bfs_differs_from_dfs")
    nontrivial = (len(ref["order"]) >= 3 and ref["shadowed"]) or ref["error"] in ("cycle", "missing", "self-missing")
    if "late_source_changes_result" in extra:
        nontrivial = True
    if record:
        ctx.case(rcase, nontrivial=bool(nontrivial and not ref["diamond"]), classes=classes,
                 key=core.jdump([sources, root, style, rcase.get("history"), rcase.get("step")]))
    try:
        got = core.guarded(ctx, rcase, lambda: mgr.collapse_named_section(root), expected=(env.errors.ConfigurationError,))
        err = None
    except env.errors.ConfigurationError as e:
        got, err = None, e
    if core.crashed(got):
        return
    if ref["diamond"]:
        return  # outside the quantified domain; only crashes are reported
    stale = None
    if prev_sources is not None:
        stale = resolve(prev_sources, root)
    if ref["error"]:
        if err is None:
            b = f"no-error:{ref['error']}"
            if stale is not None and not stale["error"]:
                b = "late-source:stale-collapse"
            ctx.violation(b, rcase, f"{root}: expected ConfigurationError ({ref['error']}), got config {dict(got.config)}")
        else:
            msg = _chain(err)
            want = {"cycle": "recursive", "missing": "cannot be found", "self-missing": "cannot be found", "no-class": "no class"}[ref["error"]]
            if want not in msg:
                ctx.violation(f"wrong-error:{ref['error']}", rcase, f"{root}: expected a '{want}' error, got: {msg}")
        return
    if err is not None:
        ctx.violation("unexpected-error:" + _errkind(err), rcase, f"{root}: {_chain(err)}; expected {ref['values']}")
        return
    exp = dict(ref["values"])
    kls = exp.pop("class")
    dflt = bool(exp.pop("default", False))
    gotc = {k: (list(v) if isinstance(v, (list, tuple)) else v) for k, v in got.config.items()}
    if stale is not None and not stale["error"]:
        sv = dict(stale["values"])
        skls = sv.pop("class")
        sd = bool(sv.pop("default", False))
        if (sv, skls, sd) != (exp, kls, dflt) and (gotc, got.type.callable.__name__, bool(got.default)) == (sv, skls, sd):
            ctx.violation(
                "late-source:stale-collapse", rcase,
                f"{root}: collapse after add_config_source still returns the result for the earlier sources: "
                f"got {gotc}/{skls} expected {exp}/{kls}",
            )
            return
    if gotc != exp:
        bad = sorted(k for k in set(gotc) | set(exp) if gotc.get(k, None) != exp.get(k, None))
        how = _explain(sources, root, ref, gotc, bad)
        ctx.violation(f"value:{how}", rcase, f"{root}: keys {bad}: got {gotc} expected {exp} (order {ref['order']})")
    if got.type.callable.__name__ != kls:
        ctx.violation("class:not-nearest", rcase, f"{root}: class {got.type.callable.__name__} expected {kls}")
    if bool(got.default) != dflt:
        ctx.violation("default:not-nearest", rcase, f"{root}: default {got.default} expected {dflt}")


def _errkind(err):
    m = _chain(err)
    for k in ("recursive", "cannot be found", "no class", "unknown", "needs settings"):
        if k in m:
            return k.replace(" ", "-")
    return "other"


def _dfs_values(sources, root):
    def stack(name):
        return [i for i in range(len(sources) - 1, -1, -1) if name in sources[i]]

    vals = {}

    def visit(name, st_, depth=0):
        if depth > 30 or not st_:
            return
        sec = sources[st_[0]][name]
        for k, v in sec.items():
            if k not in ("inherit", "inherit-only") and k not in vals:
                vals[k] = v
        for inh in sec.get("inherit", []):
            if inh == name:
                visit(name, st_[1:], depth + 1)
            else:
                visit(inh, stack(inh), depth + 1)

    visit(root, stack(root))
    return vals


def _explain(sources, root, ref, gotc, bad):
    """root-cause hint: which alternative resolution order explains the value pkgcore returned"""
    dfs = _dfs_values(sources, root)
    if all(gotc.get(k) == dfs.get(k) for k in bad):
        return "depth-first-order"
    # earlier source preferred?
    older = {}
    for name, si in ref["order"]:
        for k, v in sources[si][name].items():
            older[k] = v  # last definition in BFS order wins = farthest
    if all(gotc.get(k) == older.get(k) for k in bad):
        return "farthest-definition"
    if all(k not in gotc for k in bad):
        return "key-lost"
    return "not-nearest"


def plan(tier, seed):
    n = 350 if tier == "quick" else 9000
    tasks = []
    for _ in range(8):  # alternate so that both families get early pool slots
        tasks.append({"task": "gen", "examples": n})
        tasks.append({"task": "hist", "examples": n})
    return tasks


def run_task(ctx, task, **kw):
    if task not in ("gen", "hist"):
        raise core.HarnessError(f"unknown task {task}")
    env = Env()
    strat = case_strategy() if task == "gen" else history_strategy()
    fn = (lambda c: check(ctx, env, c)) if task == "gen" else (lambda c: check_history(ctx, env, c))
    chunk = 100 if ctx.tier == "quick" else 1000
    # the first chunk always runs (a slow start on a loaded machine must not make the run vacuous);
    # the wall-clock guard applies to everything after it
    deadline, ctx.deadline = ctx.deadline, None
    done = core.hyp_run(ctx, strat, fn, min(chunk, kw["examples"]), chunk=chunk, seed_salt=7)
    ctx.deadline = deadline
    core.hyp_run(ctx, strat, fn, kw["examples"] - done, chunk=chunk)


def replay(ctx, case):
    case = dict(case)
    root = case.pop("root", None)
    case.pop("step", None)
    if "history" in case:
        check_history(ctx, Env(), case)
    else:
        case.setdefault("add_later", False)
        check(ctx, Env(), case, only_root=root)


def shrink_case(ctx, bucket, case):
    import copy

    env = Env()
    root = case.get("root")

    def hits(c):
        sub = core.Ctx(ID, ctx.tier, ctx.seed)
        cc = {k: v for k, v in c.items() if k not in ("root", "step")}
        if not any(root in s for s in cc["sources"]):
            return False
        if "history" in cc:
            check_history(sub, env, cc, record=False)
        else:
            check(sub, env, cc, record=False, only_root=root)
        return bucket in sub.violations

    cur = copy.deepcopy(case)
    if not hits(cur):
        return None
    changed = True
    while changed:
        changed = False
        for hi, op in enumerate(cur.get("history", [])):
            if op[0] != "collapse":
                continue
            j = 0
            while j < len(cur["history"][hi][1]):
                c = copy.deepcopy(cur)
                del c["history"][hi][1][j]
                if hits(c):
                    cur, changed = c, True
                else:
                    j += 1
        for si in range(len(cur["sources"])):
            for name in list(cur["sources"][si]):
                c = copy.deepcopy(cur)
                del c["sources"][si][name]
                if hits(c):
                    cur, changed = c, True
                    continue
                for k in list(cur["sources"][si][name]):
                    c = copy.deepcopy(cur)
                    del c["sources"][si][name][k]
                    if hits(c):
                        cur, changed = c, True
                    elif k == "inherit":
                        for j in range(len(cur["sources"][si][name]["inherit"])):
                            c = copy.deepcopy(cur)
                            del c["sources"][si][name]["inherit"][j]
                            if hits(c):
                                cur, changed = c, True
                                break
    return cur
