"""C15 Successful resolutions produce dependency-closed, slot-consistent plans; building a resolver and resolving
never crash on well-formed repositories.

Generated: vf.gen.resolverworld universes (1-2 source repositories + installed db, <=12 FakePkg over <=5 names,
slots {0,1}, all five dependency classes, `||` groups, version ranges, weak/strong blockers, cycles incl.
self-dependencies), 1-3 targets, resolvers built exactly like pmerge does (upgrade_resolver / min_install_resolver,
optionally empty_tree_merge_plan, force_replace, verify_vdb on/off, lists or RepositoryGroup).

Oracle (validity predicate - many plans are correct, so the plan is *checked*, not predicted): if add_atoms()
reports success, the final state S = (installed - replaced/removed) + packages named by add/replace ops must
(T) contain a match for every target, (D) satisfy >=1 alternative of every clause of every dependency class of
every merged (non-installed) package, (U) hold <=1 package per (name, slot), (B) contain no package other than p
matched by a blocker of a merged p.  Matching is done by resolverworld's own atom model + the PMS version reference.
Any exception from constructing the resolver or from add_atoms, or more than STEP_LIMIT recursive resolution steps,
is a crash/hang bucket.

Dropped w.r.t. DESIGN.md: nodeps / drop_cycles resolvers (they ignore dependencies on purpose, so closure is not
promised), USE-conditional dependencies, blockers inside any-of groups, built (binary) packages, packages whose
blocker matches themselves.  Build-time classes (DEPEND/BDEPEND/IDEPEND) also count as satisfied by the state right
before the package's own operation (the installed version it replaces is present while it is built).
Violation buckets carry a diagnosis computed from the plan (see resolverworld.plan_problems) so that the two resolver
limitations recorded as known findings do not hide other root causes.
"""

import sys

from .. import core
from ..gen import resolverworld as RW

RW.preload()

ID = "C15"
TITLE = "Successful resolutions produce dependency-closed, slot-consistent plans"
LEVEL = "exploration"
TECHNIQUE = "seeded random repo/vdb universes resolved end to end; plan validated by an independent closure/slot/blocker checker; step/recursion bounds for non-termination"
DESIGN_REF = "DESIGN.md §3 C15"
LEVEL_TEXT = (
    "Generated-input search: seeded random universes of FakePkg repositories and installed databases are resolved with "
    "the resolvers pmerge builds; every successful plan is validated against the property's four conditions by a "
    "reference model that shares no code with the resolver; construction/resolution exceptions and non-termination "
    "(deterministic step bound) are reported as crash/hang buckets."
)
LEVEL_NOTE = (
    "Trusted: resolverworld's atom matcher and final-state model, pkgcore.test.misc.FakePkg/SimpleTree as faithful "
    "stand-ins for real repositories. Failures reported by the resolver are not judged (only successes are). "
    "No proof of absence."
)
RULE = (
    "worlds from resolverworld.worlds('full'): 2-5 names x 1-3 versions (+installed, <=12 packages), 0-3 dependency "
    "clauses per package over 5 classes (plain, any-of, ranged, slotted, weak/strong blocker, missing name), 1-3 "
    "targets, 5 resolver switches; non-trivial = resolver reported success AND the plan merges >=2 packages or "
    "replaces an installed one AND a merged package has an any-of group or a blocker; distinct = canonical JSON of "
    "the world"
)
ASSUMPTIONS = [
    "FakePkg/SimpleTree behave like real ebuild/vdb repositories as far as the resolver is concerned",
    "a plan is applied as pmerge applies it: add = install, replace = install new + remove old; unplanned installed packages stay",
    "blockers are judged on the final state for both weak and strong blockers",
]
BUDGET = {"quick": 50, "thorough": 900}

STEP_LIMIT = 1500  # ~27x the largest number of steps seen in 20000 terminating resolutions
FRAME_ALLOWANCE = 500  # python frames a resolution may nest (<=12 packages need < 150)


def _depth():
    f, n = sys._getframe(), 0
    while f is not None:
        n += 1
        f = f.f_back
    return n


def resolve(world, shuffle_seed=None, step_limit=STEP_LIMIT):
    """-> dict(ok, ops, steps, failed). Raises whatever pkgcore raises (callers wrap in core.guarded)."""
    built = RW.build(world, shuffle_seed)
    r = RW.make_resolver(built, world["resolver"], step_limit)
    # unbounded recursion is reported the same way with the default limit, just seconds later per case
    old_limit = sys.getrecursionlimit()
    sys.setrecursionlimit(min(old_limit, _depth() + FRAME_ALLOWANCE))
    try:
        ret = r.add_atoms(built["targets"], finalize=True)
    finally:
        sys.setrecursionlimit(old_limit)
    out = {"ok": not ret, "ops": RW.plan_ops(r), "steps": r._vf_steps, "failed": None, "vdb_forced": r._vf_vdb_forced}
    if ret:
        out["failed"] = [str(x) for x in ret[0]]
    return out


def _has_key_cycle(pk, ids):
    """is there a dependency cycle (over package names, any class, non-blocker) among the given packages"""
    keys = {pk[i].key for i in ids}
    g = {k: set() for k in keys}
    for i in ids:
        p = pk[i]
        for cls in RW.CLASSES:
            for cl in p.clauses(cls):
                for a in cl:
                    ra = RW.ratom(a)
                    if not ra.blocks and ra.key in keys:
                        g[p.key].add(ra.key)
    # DFS
    color = {}

    def dfs(u):
        color[u] = 1
        for v in sorted(g[u]):
            c = color.get(v, 0)
            if c == 1:
                return True
            if c == 0 and dfs(v):
                return True
        color[u] = 2
        return False

    return any(color.get(k, 0) == 0 and dfs(k) for k in sorted(keys))


def classify(world, pk, res):
    cl = []
    cfg = world["resolver"]
    cl.append("resolver:" + cfg["kind"] + ("+empty_tree" if cfg.get("empty_tree") else ""))
    if cfg.get("force_replace"):
        cl.append("resolver:force_replace")
    cl.append("verify_vdb:" + ("yes" if cfg.get("verify_vdb") else "no"))
    if cfg.get("group"):
        cl.append("repos:RepositoryGroup")
    if "src2" in world["repos"]:
        cl.append("repos:two-sources")
    if res is None:
        cl.append("outcome:exception")
        return cl, False
    if not res["ok"]:
        cl.append("outcome:failure")
        return cl, False
    cl.append("outcome:success")
    S, merged = RW.final_state(pk, res["ops"])
    replaced = any(o[0] == "replace" for o in res["ops"])
    cl.append("merged:%s" % (len(merged) if len(merged) < 4 else "4+"))
    if replaced:
        cl.append("plan:replace")
    if any(pk[o[1]].livefs for o in res["ops"] if o[0] == "add"):
        cl.append("plan:keeps-installed")
    anyof = blocker = False
    used = set()
    for i in merged:
        for c in RW.CLASSES:
            for clause in pk[i].clauses(c):
                used.add(c)
                if len(clause) > 1:
                    anyof = True
                elif RW.ratom(clause[0]).blocks:
                    blocker = True
    for c in sorted(used):
        cl.append("merged-has:" + c.lower())
    if anyof:
        cl.append("merged-has:any-of")
    if blocker:
        cl.append("merged-has:blocker")
    if len({pk[i].slot for i in S}) > 1:
        cl.append("state:multislot")
    if merged and _has_key_cycle(pk, merged):
        cl.append("merged-has:cycle")
    nontrivial = (len(merged) >= 2 or replaced) and (anyof or blocker)
    return cl, nontrivial


def evaluate(ctx, world, record=True):
    pk = RW.rpkgs(world)
    res = None
    try:
        res = core.guarded(ctx, world, lambda: resolve(world), expected=(RW.StepLimit, RecursionError))
    except RW.StepLimit as e:
        ctx.violation("hang:resolution-step-limit", world, f"add_atoms did not finish: {e}")
        res = None
    except RecursionError as e:
        # the innermost frame of a stack overflow is arbitrary: one bucket for all of them
        ctx.violation("crash:RecursionError@pkgcore/resolver/plan:_rec_add_atom", world, f"RecursionError: {e}")
        res = None
    if core.crashed(res):
        res = None
    if record:
        cl, nontrivial = classify(world, pk, res)
        ctx.case(world, nontrivial=nontrivial, classes=cl, key=core.jdump(world))
    if res is None or not res["ok"]:
        return res
    ctx.count("resolution_steps", res["steps"])
    seen = set()
    problems = RW.plan_problems(world, pk, res["ops"])
    selfx = bool(problems) and RW.has_self_excluding(pk)
    for bucket, msg in problems:
        if selfx and not bucket.endswith(":own-slot"):
            # some package of the world requires another version of its own slot (it excludes itself); the
            # resolver's handling of that is one root cause with many symptoms - keep those apart
            bucket += ":world-has-self-excluding-pkg"
        if bucket in seen:
            continue
        seen.add(bucket)
        ctx.violation(bucket, world, f"{msg}; plan={res['ops']}")
    return res


def plan(tier, seed):
    if tier == "quick":
        return [{"task": "worlds", "examples": 250} for _ in range(16)]
    return [{"task": "worlds", "examples": 8000} for _ in range(32)]


def run_task(ctx, task, **kw):
    if task != "worlds":
        raise core.HarnessError(f"unknown task {task}")
    RW.drive(ctx, "full", kw["examples"], lambda w: evaluate(ctx, w))


def replay(ctx, case):
    evaluate(ctx, case)


def shrink_case(ctx, bucket, case):
    def still(w):
        c = core.Ctx(ID, ctx.tier, ctx.seed)
        try:
            evaluate(c, w, record=False)
        finally:
            c.cleanup()
        return bucket in c.violations

    return RW.shrink_world(case, still)
