"""C28 Manifest generation is deterministic, idempotent, parseable and atomic.

Generated: package directories (ebuilds, metadata.xml/ChangeLog/misc files, nested files/ trees, CVS/.svn
dirs that the generator must skip), distfile sets (fetchables with size + random checksums, some with
leading zero digits, some lacking an optional hash), hash lists, thick and thin mode, a second state of the
directory/distfiles (the "edit") and a seed that permutes the `fetchables` argument, the order in which
`iter_scan` yields directory entries, the order of the hash names in `chfs` (after 'size') and the insertion order
of every fetchable's checksum mapping; file and distfile names are whitespace-free, partly non-ASCII.

Oracle (independent: hashlib over the bytes the harness wrote + the generated distfile table):
 1. `parse_manifest(Manifest)` and a line parser of my own both equal the expected {type: {name: {size, chf..}}}.
 2. regenerating from scratch with a different listing/argument order gives byte-identical text.
 3. a further `update()` with the very same fetchable objects returns False, leaves bytes, inode and mtime_ns alone,
    its audit log contains no mutating event at all, and the caller's fetchables (chksums dicts) are unchanged.
 3b. one long-lived Manifest object whose properties were read before an update() must, after that update(), report
    exactly what the file it just wrote states (first generation and the update after the edit).
 4. after the edit, `update()` returns True iff the expected content changed and the file then parses to the
    new expectation; thin mode without distfiles writes nothing.
 5. crash cases: `update()` onto the stale (or missing) Manifest is stopped before/after/with EIO at each
    mutating filesystem event; the Manifest must be byte-identical to the old file (absent if there was none)
    or to the complete new one.

Dropped from DESIGN: signed Manifests, symlinks/hidden files inside the package dir (skipped by construction;
the statement does not say whether they are covered), rmd160 (not in hashlib here).
"""
import hashlib
import os
import random
import shutil
from contextlib import contextmanager

from hypothesis import strategies as st

from .. import core
from ..ref import faultpoints as fp

ID = "C28"
TITLE = "Manifest generation is deterministic, idempotent, parseable and atomic"
LEVEL = "fault_enumeration"
TECHNIQUE = "round trip vs hashlib reference + metamorphic shuffles (listing / fetchable / hash-name / checksum-mapping order) + crash/EIO injection at every file operation of the rewrite"
DESIGN_REF = "DESIGN.md §3 C28"
LEVEL_TEXT = (
    "Random package directories and distfile tables are turned into Manifests; the parsed result is compared with "
    "checksums computed by hashlib, the text with a regeneration under shuffled listing/argument order, a repeated "
    "update must not touch the file, and every Python-visible mutating filesystem event of a rewrite is used as a "
    "crash / EIO point after which the file must be the complete old or complete new Manifest."
)
LEVEL_NOTE = (
    "Crash points are Python-level file operations; os._exit drops buffered data (pessimistic, legal); torn block "
    "writes are not modelled. Listing order is varied by wrapping pkgcore.ebuild.digest.iter_scan. No proof of absence."
)
RULE = (
    "case = thin|thick, hash list (size + 1-3 of 8 hashes, any order; every update() call sees a different permutation of hash names, "
    "checksum-mapping keys, fetchables and directory listing), 1-8 files with ASCII or non-ASCII names (ebuilds, misc, files/ subtree up to depth 3, "
    "CVS/.svn noise), 0-4 distfiles, an edit (changed/added/removed files, changed distfile table), shuffle seed; crash "
    "cases enumerate all (event, mode) points of the rewrite. non-trivial = some Manifest section has >=2 entries and the "
    "edit changes the expected Manifest (a real rewrite of an existing file); distinct = canonical JSON of the case"
)
ASSUMPTIONS = [
    "hashlib implements the named hashes; Manifest2 type rules: files/** -> AUX (path relative to files/), top-level *.ebuild -> EBUILD, other top-level files -> MISC, distfiles -> DIST; CVS, .svn and Manifest path components are not covered",
    "callers always pass 'size' as the first hash (repo_objs builds the list that way)",
    "a crash is process death at a Python-visible filesystem operation; buffered data is lost",
]
BUDGET = {"quick": 50, "thorough": 900}

HASHES = ("blake2b", "sha512", "sha256", "md5", "sha1", "blake2s", "sha3_256", "sha3_512")
BITS = {"blake2b": 512, "sha512": 512, "sha256": 256, "md5": 128, "sha1": 160, "blake2s": 256, "sha3_256": 256, "sha3_512": 512}
EXCLUDED = {"CVS", ".svn", "Manifest"}


def _imports():
    from pkgcore.ebuild import digest
    from pkgcore.fetch import fetchable
    from pkgcore.package import errors

    return digest, fetchable, errors


# ---------------------------------------------------------------- generators

_AL = "abcdefghijklmnopqrstuvwxyzABCDEFGHIJKLMNOPQRSTUVWXYZ0123456789"
_ascii_fname = st.builds(
    lambda a, b: a + b,
    st.sampled_from(list(_AL + "_")),
    st.text(alphabet=_AL + "._+-", max_size=10),
).filter(lambda s: s not in EXCLUDED and not s.endswith(".ebuild") and s != "files")
# whitespace-free non-ASCII names: the Manifest is text, byte length != character length
_utf8_fname = st.one_of(
    st.sampled_from(["gr\u00f6\u00dfe-fix.patch", "na\u00efve-1.0.tar.gz", "\u65e5\u672c.patch", "caf\u00e9", "\u00fc.diff", "x-\u2713.tar"]),
    st.builds(lambda a, b, c: a + b + c, st.sampled_from(list(_AL)), st.text(alphabet="\u00e9\u00fc\u00df\u00f1\u65e5\u2713" + _AL, min_size=1, max_size=6),
              st.sampled_from(["", ".patch", ".tar.gz"])).filter(lambda s: not s.isascii()),
)
_fname = st.one_of(_ascii_fname, _ascii_fname, _ascii_fname, _utf8_fname)
_data = st.one_of(
    st.just(b""), st.binary(max_size=64), st.binary(min_size=100, max_size=700),
    st.sampled_from([b"EAPI=8\n", b"<pkgmetadata/>\n", b"patch\n", b"\n", b"a b\tc\n"]),
).map(lambda b: b.hex())
_ver = st.sampled_from(["0", "1", "1.0", "2.4.1", "10", "1.0-r1", "3_p1", "9999", "1.2_rc3"])


@st.composite
def _tree(draw):
    """list of [relpath, hexdata]"""
    pn = draw(st.sampled_from(["pkg", "foo-bar", "libX", "a", "python"]))
    out = {}
    for v in draw(st.lists(_ver, unique=True, min_size=1, max_size=3)):
        out[f"{pn}-{v}.ebuild"] = draw(_data)
    for n in draw(st.lists(st.one_of(st.sampled_from(["metadata.xml", "ChangeLog", "README"]), _fname), unique=True, max_size=3)):
        out[n] = draw(_data)
    naux = draw(st.sampled_from([0, 0, 1, 2, 3, 4]))
    for _ in range(naux):
        depth = draw(st.sampled_from([0, 0, 1, 1, 2]))
        parts = [draw(st.sampled_from(["sub", "patches", "2.0", "d"])) for _ in range(depth)] + [
            draw(st.one_of(_fname, st.sampled_from(["fix.patch", "init.d", "x.ebuild", "a.patch", "b.patch"])))
        ]
        p = "files/" + "/".join(parts)
        # a name must not be both a file and a directory
        if any(q == p or q.startswith(p + "/") or p.startswith(q + "/") for q in out):
            continue
        out[p] = draw(_data)
    for noise in draw(st.lists(st.sampled_from(["CVS/Entries", ".svn/entries", "files/CVS/Root", "CVS/Repository"]), unique=True, max_size=2)):
        out[noise] = draw(_data)
    return sorted(out.items())


@st.composite
def _dist(draw, hashes):
    names = draw(st.lists(
        st.one_of(st.sampled_from(["pkg-1.0.tar.gz", "pkg-2.4.1.tar.xz", "a.zip", "B.tar.bz2", "patches-1.tar"]), _fname),
        unique=True, max_size=4))
    out = []
    for n in names:
        ck = {}
        for h in hashes:
            if h != hashes[0] and draw(st.integers(min_value=0, max_value=5)) == 0:
                continue  # optional hash missing for this distfile (first one is the 'required' one)
            bits = BITS[h]
            v = draw(st.one_of(st.integers(min_value=0, max_value=2**bits - 1), st.integers(min_value=0, max_value=2**(bits - 16))))
            ck[h] = f"{v:x}"
        out.append([n, draw(st.one_of(st.integers(min_value=0, max_value=10**7), st.sampled_from([0, 1, 2**32, 7853169]))), ck])
    return out


@st.composite
def cases(draw, crash_case=False):
    thin = draw(st.integers(min_value=0, max_value=9)) >= 7
    hashes = draw(st.one_of(
        st.sampled_from([["blake2b", "sha512"], ["sha512", "blake2b"], ["sha512", "sha256", "blake2b"]]),
        st.lists(st.sampled_from(HASHES), unique=True, min_size=1, max_size=3),
    ))
    tree = draw(_tree())
    dist = draw(_dist(hashes))
    if thin and not dist and draw(st.integers(min_value=0, max_value=3)) > 0:
        dist = draw(_dist(hashes).filter(bool))
    # the edit: second state
    names = [p for p, _ in tree]
    tset, tdel = [], []
    kinds = draw(st.lists(st.sampled_from(["change", "add", "del", "dist", "none"]), min_size=1, max_size=3))
    if crash_case and all(k == "none" for k in kinds):
        kinds = ["dist" if thin else "change"]
    dist2 = dist
    for k in kinds:
        if k == "change":
            tset.append([draw(st.sampled_from(names)), draw(_data)])
        elif k == "add":
            n = draw(st.sampled_from(["files/new.patch", "new-1.ebuild", "NEWS", "files/sub/zz.diff"]))
            if not any(q == n or q.startswith(n + "/") or n.startswith(q + "/") for q in names):
                tset.append([n, draw(_data)])
        elif k == "del":
            cands = [n for n in names if not n.endswith(".ebuild")]
            if cands:
                tdel.append(draw(st.sampled_from(cands)))
        elif k == "dist":
            dist2 = draw(_dist(hashes))
    tset = [e for e in tset if e[0] not in tdel]
    if crash_case and draw(st.integers(min_value=0, max_value=5)) > 0:
        # make sure the rewrite really happens: an edit that is guaranteed to change the expected Manifest
        if thin:
            dist2 = [d for d in dist2 if d[0] != "extra-9.tar"] + [["extra-9.tar", draw(st.integers(min_value=0, max_value=99999)), {hashes[0]: "abc"}]]
        else:
            tset = [e for e in tset if e[0] != "NEWS-9"] + [["NEWS-9", draw(_data)]]
    fresh = bool(crash_case and draw(st.integers(min_value=0, max_value=4)) == 0)
    return {
        "thin": thin, "chfs": ["size"] + hashes, "tree": [list(x) for x in tree], "dist": dist,
        "edit": {"set": tset, "del": sorted(set(tdel)), "dist": dist2},
        "perm": draw(st.integers(min_value=0, max_value=2**16)), "crash": bool(crash_case), "fresh": fresh,
    }


# ---------------------------------------------------------------- reference model

def _hash(name, data):
    return int(hashlib.new(name, data).hexdigest(), 16)


def expected(case, tree, dist):
    """{type: {name: {size, chf: int}}} from the bytes in `tree` (dict relpath->bytes) and the dist table"""
    exp = {"DIST": {}, "AUX": {}, "EBUILD": {}, "MISC": {}}
    hashes = case["chfs"][1:]
    if not case["thin"]:
        for p, data in tree.items():
            comps = p.split("/")
            if EXCLUDED.intersection(comps):
                continue
            ent = {"size": len(data)}
            for h in hashes:
                ent[h] = _hash(h, data)
            if comps[0] == "files" and len(comps) > 1:
                exp["AUX"]["/".join(comps[1:])] = ent
            elif len(comps) == 1 and p.endswith(".ebuild"):
                exp["EBUILD"][p] = ent
            elif len(comps) == 1:
                exp["MISC"][p] = ent
            else:
                raise core.HarnessError(f"generator produced an unexpected directory: {p}")
    for name, size, ck in dist:
        ent = {"size": size}
        for h, v in ck.items():
            ent[h] = int(v, 16)
        exp["DIST"][name] = ent
    return exp


def my_parse(text):
    """independent Manifest2 line parser -> same shape as expected(); None if malformed"""
    out = {"DIST": {}, "AUX": {}, "EBUILD": {}, "MISC": {}}
    if text and not text.endswith("\n"):
        return None
    for line in text.split("\n"):
        if not line:
            continue
        tok = line.split(" ")
        if len(tok) < 3 or tok[0] not in out or (len(tok) - 3) % 2 or "" in tok:
            return None
        if tok[1] in out[tok[0]]:
            return None
        try:
            ent = {"size": int(tok[2])}
            for i in range(3, len(tok), 2):
                if tok[i] != tok[i].upper() or tok[i].lower() in ent:
                    return None
                ent[tok[i].lower()] = int(tok[i + 1], 16)
        except ValueError:
            return None
        out[tok[0]][tok[1]] = ent
    return out


def _plain_parsed(parsed):
    dist, aux, ebuild, misc = parsed
    return {k: {n: dict(v) for n, v in d.items()} for k, d in (("DIST", dist), ("AUX", aux), ("EBUILD", ebuild), ("MISC", misc))}


# ---------------------------------------------------------------- driving pkgcore

class Env:
    def __init__(self):
        self.digest, self.fetchable, self.errors = _imports()
        self.real_iter_scan = self.digest.iter_scan

    @contextmanager
    def shuffled_scan(self, seed):
        real = self.real_iter_scan

        def scan(*a, **kw):
            l = list(real(*a, **kw))
            random.Random(seed).shuffle(l)
            return iter(l)

        self.digest.iter_scan = scan
        try:
            yield
        finally:
            self.digest.iter_scan = real

    @staticmethod
    def reorder(items, seed):
        """a permutation of `items` chosen by `seed` such that seeds s and s+1 never give the same order when
        len(items) >= 2 with distinct members: odd seeds reverse, then rotate by seed//2"""
        items = list(items)
        if seed % 2:
            items.reverse()
        if len(items) > 2:
            r = (seed // 2) % len(items)
            items = items[r:] + items[:r]
        return items

    def fetchables(self, dist, seed):
        l = []
        for n, size, ck in dist:
            pairs = [("size", size)] + [(h, int(v, 16)) for h, v in ck.items()]
            # insertion order of the checksum mapping is an input order too
            l.append(self.fetchable(n, chksums=dict(self.reorder(pairs, seed))))
        random.Random(seed).shuffle(l)
        return l

    def manifest(self, case, pkgdir):
        return self.digest.Manifest(os.path.join(pkgdir, "Manifest"), thin=case["thin"], allow_missing=True)

    @staticmethod
    def view(m):
        """what a Manifest object reports (parsing the file lazily and caching the result)"""
        return _plain_parsed((m.distfiles, m.aux_files, m.ebuilds, m.misc))

    def update(self, case, pkgdir, dist, seed, fetchables=None, manifest=None):
        """one Manifest.update() the way repo_operations drives it; the shuffle seed only picks orders.
        `fetchables`: re-use these objects (the caller's, as pmaint does for every package of a run)"""
        m = manifest if manifest is not None else self.manifest(case, pkgdir)
        with self.shuffled_scan(seed):
            # callers list 'size' first; the order of the other hash names is theirs (manifest-hashes in layout.conf)
            chfs = tuple(case["chfs"][:1] + self.reorder(case["chfs"][1:], seed))
            return m.update(self.fetchables(dist, seed) if fetchables is None else fetchables, chfs=chfs)


def _write_tree(pkgdir, items):
    for p, data in items:
        full = os.path.join(pkgdir, p)
        os.makedirs(os.path.dirname(full), exist_ok=True)
        with open(full, "wb") as f:
            f.write(data)


def _read_bytes(path):
    try:
        with open(path, "rb") as f:
            return f.read()
    except FileNotFoundError:
        return None


def _section_sizes(exp):
    return max(len(v) for v in exp.values())


def _first_diff(exp, got):
    if got is None:
        return "malformed"
    for t in ("AUX", "DIST", "EBUILD", "MISC"):
        if set(exp[t]) != set(got[t]):
            return f"{t}-names"
        for n in exp[t]:
            if exp[t][n] != got[t][n]:
                if exp[t][n].get("size") != got[t][n].get("size"):
                    return f"{t}-size"
                if set(exp[t][n]) != set(got[t][n]):
                    return f"{t}-hashset"
                return f"{t}-checksum"
    return None


def check_case(ctx, case, env=None):
    env = env or Env()
    tree1 = {p: bytes.fromhex(d) for p, d in case["tree"]}
    tree2 = dict(tree1)
    for p in case["edit"]["del"]:
        tree2.pop(p, None)
    for p, d in case["edit"]["set"]:
        tree2[p] = bytes.fromhex(d)
    exp1 = expected(case, tree1, case["dist"])
    exp2 = expected(case, tree2, case["edit"]["dist"])
    cl = ["thin" if case["thin"] else "thick"]
    if any("/" in n for n in exp1["AUX"]):
        cl.append("aux_nested")
    if exp1["DIST"]:
        cl.append("has_dist")
    if any(len(v) < BITS[h] // 4 for _, _, ck in case["dist"] for h, v in ck.items()):
        cl.append("dist_checksum_leading_zero")
    if any(len(ck) < len(case["chfs"]) - 1 for _, _, ck in case["dist"]):
        cl.append("dist_missing_optional_hash")
    if any(EXCLUDED.intersection(p.split("/")) for p in tree1):
        cl.append("vcs_noise")
    if len(case["chfs"]) > 2:
        cl.append("multi_hash")
        if case["chfs"][1:] != sorted(case["chfs"][1:]):
            cl.append("multi_hash_non_alphabetical")
    if any(not n.isascii() for t in (exp1, exp2) for sec in t.values() for n in sec):
        cl.append("non_ascii_name")
    if any(len(d) == 0 for d in tree1.values()):
        cl.append("empty_file")
    if exp1 != exp2:
        cl.append("edit_changes_manifest")
    if case["thin"] and not case["dist"]:
        cl.append("thin_no_dist")
    if case["crash"]:
        cl.append("crash_fresh" if case["fresh"] else "crash_rewrite")
    nontrivial = max(_section_sizes(exp1), _section_sizes(exp2)) >= 2 and exp1 != exp2 and not case.get("fresh")
    pkgdir = ctx.fresh_dir("c28")
    try:
        n = _check(ctx, env, case, pkgdir, tree1, tree2, exp1, exp2)
    finally:
        shutil.rmtree(pkgdir, ignore_errors=True)
    ctx.case(case, nontrivial=nontrivial, classes=cl, n=max(1, n))


def _verify_file(ctx, env, case, mpath, exp, when):
    text = _read_bytes(mpath)
    if text is None:
        ctx.violation("parse:manifest-missing", case, f"{when}: update() reported a write but there is no Manifest")
        return False
    ok = True
    try:
        stext = text.decode("utf8")
    except UnicodeDecodeError:
        ctx.violation("parse:not-text", case, f"{when}: Manifest is not utf8")
        return False
    b = _first_diff(exp, my_parse(stext))
    if b:
        ctx.violation(f"roundtrip-text:{b}", case, f"{when}: Manifest text {stext!r} does not state {exp!r}")
        ok = False
    try:
        parsed = core.guarded(ctx, case, lambda: env.digest.parse_manifest(mpath), expected=(env.errors.ParseChksumError,))
    except env.errors.ParseChksumError as e:
        ctx.violation("roundtrip-parse:rejected", case, f"{when}: parse_manifest rejects the generated Manifest {stext!r}: {e}")
        return False
    if core.crashed(parsed):
        return False
    b = _first_diff(exp, _plain_parsed(parsed))
    if b:
        ctx.violation(f"roundtrip-parse:{b}", case, f"{when}: parse_manifest gives {_plain_parsed(parsed)!r}, expected {exp!r}")
        ok = False
    return ok


def _check(ctx, env, case, pkgdir, tree1, tree2, exp1, exp2):
    mpath = os.path.join(pkgdir, "Manifest")
    seed = case["perm"]
    evals = 0
    _write_tree(pkgdir, tree1.items())
    writes1 = not (case["thin"] and not case["dist"])

    # one long-lived object, as the ebuild repository keeps per package: its view is read before and after updates
    obj = env.manifest(case, pkgdir)

    def upd(dist, s, d=pkgdir, fetchables=None, manifest=None):
        try:
            return core.guarded(ctx, case, lambda: env.update(case, d, dist, s, fetchables, manifest), expected=(env.errors.ParseChksumError,))
        except env.errors.ParseChksumError as e:
            ctx.violation("update:parse-error", case, f"update() raised {e}")
            return core._CRASHED

    def same_object_view(when):
        """the object that generated the Manifest must report what the file it wrote states"""
        raw = _read_bytes(mpath)
        ref = my_parse(raw.decode("utf8", "replace")) if raw is not None else {"DIST": {}, "AUX": {}, "EBUILD": {}, "MISC": {}}
        got = core.guarded(ctx, case, lambda: env.view(obj))
        if core.crashed(got) or ref is None:
            return
        b = _first_diff(ref, got)
        if b:
            ctx.violation(f"object-view:stale-after-update:{b.split('-')[0]}", case, f"{when}: the updating Manifest object reports {got!r}, its file states {ref!r}")

    # 1. generate + parse back (the object has already looked at the -- missing -- file, as the manifest command does)
    same_object_view("before the first update")
    r = upd(case["dist"], seed, manifest=obj)
    if core.crashed(r):
        return evals
    evals += 1
    same_object_view("after the first update")
    if bool(r) != writes1:
        ctx.violation("update:return-value", case, f"first update() returned {r!r}, expected {writes1}")
    if not writes1:
        if os.path.lexists(mpath):
            ctx.violation("update:thin-without-distfiles-wrote", case, "thin mode, no distfiles, yet a Manifest appeared")
    else:
        if not _verify_file(ctx, env, case, mpath, exp1, "first update"):
            return evals
        text1 = _read_bytes(mpath)
        # 2. determinism across listing / argument order
        os.unlink(mpath)
        mine = env.fetchables(case["dist"], seed + 1)  # the caller's objects, re-used below
        snap = [(f.filename, dict(f.chksums)) for f in mine]
        r = upd(case["dist"], seed + 1, fetchables=mine)
        if core.crashed(r):
            return evals
        evals += 1
        text2 = _read_bytes(mpath)
        if text2 != text1:
            ctx.violation("determinism:order-dependent-text", case, f"regeneration with another listing/argument order gave {text2!r} instead of {text1!r}")
            return evals
        # 3. idempotence: same inputs (the very same fetchable objects) again -> False, no mutating event at all
        st0 = os.stat(mpath)
        ret = []
        res = fp.log_run(lambda: ret.append(env.update(case, pkgdir, case["dist"], seed + 2, mine)), [pkgdir])
        evals += 1
        st1 = os.stat(mpath)
        if res.status != "completed":
            ctx.violation("idempotence:raised:" + (res.exc or "?").split(":")[0], case, f"update() on an up-to-date Manifest with the caller's fetchables re-used: {res.exc}")
        elif ret[0] is not False:
            ctx.violation("idempotence:reports-write", case, f"update() on an up-to-date Manifest returned {ret[0]!r}")
        if res.events:
            ctx.violation("idempotence:mutating-events", case, f"up-to-date update() performed {res.events}")
        if _read_bytes(mpath) != text1 or (st0.st_ino, st0.st_mtime_ns) != (st1.st_ino, st1.st_mtime_ns):
            ctx.violation("idempotence:file-touched", case, "update() on an up-to-date Manifest rewrote the file")
        now = [(f.filename, dict(f.chksums)) for f in mine]
        if now != snap:
            ctx.violation("update:mutates-fetchable-chksums", case, f"update() changed the caller's fetchables: {snap!r} -> {now!r}")
    # 4./5. the edit
    for p in case["edit"]["del"]:
        if os.path.lexists(os.path.join(pkgdir, p)):
            os.unlink(os.path.join(pkgdir, p))
    _write_tree(pkgdir, [(p, bytes.fromhex(d)) for p, d in case["edit"]["set"]])
    dist2 = case["edit"]["dist"]
    if case.get("fresh") and os.path.lexists(mpath):
        os.unlink(mpath)
        writes1 = False
    old = _read_bytes(mpath)
    writes2 = not (case["thin"] and not dist2) and (exp2 != exp1 or not writes1)
    if case["crash"]:
        return evals + _crash_part(ctx, env, case, pkgdir, dist2, old, exp2, writes2)
    same_object_view("before the update after the edit")
    r = upd(dist2, seed + 4, manifest=obj)
    if core.crashed(r):
        return evals
    evals += 1
    same_object_view("after the update after the edit")
    if bool(r) != writes2:
        ctx.violation("update:return-value", case, f"update() after the edit returned {r!r}, expected {writes2}")
    if writes2:
        _verify_file(ctx, env, case, mpath, exp2, "update after edit")
    elif _read_bytes(mpath) != old:
        ctx.violation("update:unexpected-rewrite", case, "nothing to change, yet the Manifest bytes changed")
    return evals


def _crash_part(ctx, env, case, pristine, dist2, old, exp2, writes2):
    seed = case["perm"] + 5
    base = ctx.fresh_dir("c28w")
    evals = 0
    try:
        def fresh(tag):
            w = os.path.join(base, f"w{tag}")
            shutil.copytree(pristine, w, symlinks=True)
            return w

        w = fresh("dry")
        dry = fp.log_run(lambda: env.update(case, w, dist2, seed), [w])
        evals += 1
        if dry.status != "completed":
            ctx.violation("update:raised:" + (dry.exc or dry.status).split(":")[0], case, f"update() without injection: {dry.status} {dry.exc}")
            return evals
        mp = os.path.join(w, "Manifest")
        new = _read_bytes(mp)
        if writes2:
            if not _verify_file(ctx, env, case, mp, exp2, "rewrite (dry run)"):
                return evals
        elif new != old:
            ctx.violation("update:unexpected-rewrite", case, "nothing to change, yet the Manifest bytes changed")
            return evals
        ctx.count("events_total", len(dry.events))
        for k, mode, res, w in fp.injections(ctx, dry.events, fresh, lambda w: (lambda: env.update(case, w, dist2, seed))):
            ev = dry.events[k - 1]
            what = f"{mode} event {k}/{len(dry.events)} {ev['ev']} {ev.get('path')}"
            got = _read_bytes(os.path.join(w, "Manifest"))
            evals += 1
            if got != old and got != new:
                kind = "truncated" if got == b"" else ("missing" if got is None else "partial")
                ctx.violation(f"atomic:manifest-{kind}", case, f"{what}: Manifest is {got!r}; old={old!r} new={new!r}")
            elif res.status == "completed" and got != new:
                ctx.violation("atomic:completed-update-not-visible", case, f"{what}: update() returned but the Manifest is still the old one")
    finally:
        shutil.rmtree(base, ignore_errors=True)
    return evals


# ---------------------------------------------------------------- runner glue

def smoke_cases():
    """small deterministic family run first on every run: hash names handed over non-alphabetically, non-ASCII file and
    distfile names, nested files/ subdirectories with equal basenames, VCS noise, thin and thick, the caller's fetchables
    re-used for the up-to-date regeneration, and a rewrite under full crash/EIO enumeration"""
    h = lambda b: b.hex()  # noqa: E731
    tree = [
        ["pkg-1.0.ebuild", h(b"EAPI=8\n")], ["pkg-1.1-r1.ebuild", h(b"EAPI=8\nSLOT=1\n")],
        ["metadata.xml", h(b"<pkgmetadata/>\n")], ["ChangeLog", h(b"")],
        ["files/pkg", h(b"top\n")], ["files/init.d/pkg", h(b"init\n")], ["files/conf.d/pkg", h(b"conf\n")],
        ["files/patches/2.0/fix.patch", h(b"patch\n")], ["files/gr\u00f6\u00dfe-fix.patch", h(b"x" * 300)],
        ["files/x.ebuild", h(b"not an ebuild\n")], ["CVS/Entries", h(b"noise")], ["files/CVS/Root", h(b"noise")],
    ]
    out = []
    for thin in (False, True):
        for hashes in (["sha512", "blake2b"], ["sha512", "sha256", "blake2b"], ["md5"]):
            dist = [
                ["pkg-1.0.tar.gz", 7853169, {x: "1f" * 3 for x in hashes}],
                ["na\u00efve-1.0.tar.gz", 1234, {hashes[0]: "0"}],
                ["B.tar.bz2", 0, {x: "abc" for x in reversed(hashes)}],
            ]
            dist2 = dist[:2] + [["extra.tar", 5, {hashes[0]: "5"}]]
            edit = {"set": [["pkg-1.0.ebuild", h(b"EAPI=8\n# changed\n")], ["files/conf.d/new", h(b"n")]],
                    "del": ["files/init.d/pkg"], "dist": dist2}
            for crash_case in (False, True):
                if crash_case and hashes != ["sha512", "blake2b"]:
                    continue
                out.append({"thin": thin, "chfs": ["size"] + hashes, "tree": tree, "dist": dist, "edit": edit,
                            "perm": len(out), "crash": crash_case, "fresh": False})
    out.append({"thin": False, "chfs": ["size", "sha512", "blake2b"], "tree": tree[:3], "dist": [], "perm": 1,
                "edit": {"set": [], "del": [], "dist": []}, "crash": True, "fresh": True})
    return out


def _interleave(a, b):
    """alternate the two task kinds so that both make progress whatever the job count / budget"""
    out = []
    for i in range(max(len(a), len(b))):
        out += a[i:i + 1] + b[i:i + 1]
    return out


def plan(tier, seed):
    # quick is sized for the verification host (forked injections ~0.1 s each and not scaling over workers, threaded
    # hashing inside update()); thorough keeps the full sizes
    if tier == "quick":
        return [{"task": "smoke"}] + _interleave([{"task": "gen", "examples": 50} for _ in range(8)],
                                                  [{"task": "crash", "examples": 12} for _ in range(4)])
    return [{"task": "smoke"}] + _interleave([{"task": "gen", "examples": 6000} for _ in range(16)],
                                              [{"task": "crash", "examples": 1500} for _ in range(16)])


def run_task(ctx, task, **kw):
    env = Env()
    if task == "smoke":
        for c in smoke_cases():
            check_case(ctx, c, env)
    elif task == "gen":
        core.hyp_run(ctx, cases(False), lambda c: None if ctx.out_of_time() else check_case(ctx, c, env), kw["examples"], chunk=50)
    elif task == "crash":
        core.hyp_run(ctx, cases(True), lambda c: None if ctx.out_of_time() else check_case(ctx, c, env), kw["examples"], chunk=12, seed_salt=7)
    else:
        raise core.HarnessError(f"unknown task {task}")


def replay(ctx, case):
    check_case(ctx, case)


def shrink_case(ctx, bucket, case):
    import copy

    env = Env()

    def hits(c):
        sub = core.Ctx(ID, ctx.tier, ctx.seed)
        try:
            check_case(sub, c, env)
        except Exception:  # noqa: BLE001
            return False
        finally:
            sub.cleanup()
        return bucket in sub.violations

    cur = copy.deepcopy(case)
    changed = True
    while changed:
        changed = False
        cands = []
        for i in range(len(cur["tree"])):
            if sum(1 for p, _ in cur["tree"] if p.endswith(".ebuild") and "/" not in p) == 1 and cur["tree"][i][0].endswith(".ebuild"):
                continue
            c = copy.deepcopy(cur)
            name = c["tree"][i][0]
            del c["tree"][i]
            c["edit"]["set"] = [e for e in c["edit"]["set"] if e[0] != name]
            c["edit"]["del"] = [e for e in c["edit"]["del"] if e != name]
            cands.append(c)
        for key in ("dist",):
            for i in range(len(cur[key])):
                c = copy.deepcopy(cur)
                del c[key][i]
                cands.append(c)
        for i in range(len(cur["edit"]["dist"])):
            c = copy.deepcopy(cur)
            del c["edit"]["dist"][i]
            cands.append(c)
        for i in range(len(cur["edit"]["set"])):
            c = copy.deepcopy(cur)
            del c["edit"]["set"][i]
            cands.append(c)
        for i in range(len(cur["tree"])):
            if len(cur["tree"][i][1]) > 2:
                c = copy.deepcopy(cur)
                c["tree"][i][1] = "61"
                cands.append(c)
        for c in cands:
            if c != cur and hits(c):
                cur = c
                changed = True
                break
    return cur
