"""C40 Keywording requests only name valid, narrowed, not-yet-present arches.

A case is a small fake repository (known arches, packages x versions with KEYWORDS incl. ~arch, -arch, -*, prefix
arches, live versions, two slots; built on pkgcore's SimpleTree/FakePkg) and a request list (specs with written
keywords incl. the * ^ - sentinels) with an option combination.  The request is rendered as a package list and parsed
with PackageList exactly as `Bug.match_packages` does, then fed to `match_packages` through a lazily consumed
iterator, which tells which *line* every yielded KeywordRequest came from.

Oracle = invariants taken from the statement, evaluated on a harness-side model of the repository (plain dicts):
  * yielded package is the version the spec denotes (stable: the exact version; keywording: newest keyworded, else
    newest non-live, else newest -- select_best_version docstring)
  * arches are known to the repo; a line carrying `-` yields nothing
  * cc_arches / filter_arch / only_new narrowing honoured; the only arches allowed beyond cc/filter are the
    all-arches candidates (reference suggested set) when allarches+stable+filter_arch
  * a line whose only keyword is `*` names only reference suggestions: no prefix arch; stabilising: testing on this
    version and stable on another; keywording: keyworded on another version and absent here
  * narrowing never invents arches: a sentinel-free line yields a subset of what was written (or of cc_arches when
    nothing was written)
  * stable + spec that is not a plain `=cat/pkg-ver` (other operator, no version, slot) => PackageInvalid at that
    line; a spec matching nothing => PackageNoMatch at that line
plus a differential of `suggested_keywords` for every version of the repo against the reference sets.

Simplified vs DESIGN: no *full* differential of match_packages (order of keywords, what `^` copies after narrowing,
the terminal exception classes are not pinned down by the statement and the docstrings leave them open).
"""

import copy

from hypothesis import strategies as st

from .. import core

ID = "C40"
TITLE = "Keywording requests only name valid, narrowed, not-yet-present arches"
LEVEL = "exploration"
TECHNIQUE = "model-based invariants on match_packages output over generated fake repos/requests; differential of suggested_keywords vs. reference sets"
DESIGN_REF = "DESIGN.md §3 C40"
LEVEL_TEXT = (
    "Generated-input search: random small repositories and request lists with sentinels and every option "
    "combination; each yielded request is attributed to its line and checked against statement-level invariants "
    "computed on an independent dict model of the repository."
)
LEVEL_NOTE = "Trusted: the harness-side repository model (version matching for = >= ~ unversioned :slot on integer versions). No proof of absence."
RULE = (
    "repo: 2-5 known arches (plain + prefix), 1-3 packages x 1-4 integer versions (1,2,9,10) with per-arch "
    "stable/~/-/absent keywords, optional -*, live versions, slots 0/1; request: 1-4 lines (=existing / =missing / "
    "unversioned / :slot / >= / ~ specs; keywords from known arches with optional ~, * ^ -, rarely unknown), options "
    "stable, cc_arches, only_new, filter_arch, allarches; non-trivial = >=1 request yielded AND (a sentinel line or "
    "cc/filter/only_new given); distinct = canonical JSON of the case"
)
ASSUMPTIONS = [
    "a package version does not carry both arch and ~arch",
    "cc_arches are known arches (Bug.arches filters them)",
    "match_packages consumes `requested` lazily, one line per loop iteration (used to attribute yields to lines)",
]
BUDGET = {"quick": 50, "thorough": 900}

PLAIN = ["alpha", "amd64", "arm64", "hppa", "x86"]
PREFIX = ["amd64-linux", "x86-macos"]
VERSIONS = ["1", "2", "9", "10"]
PKGNAMES = ["p", "q", "r"]


# --------------------------------------------------------------------------- strategies

def gen_case(rnd):
    """one case from a PRNG (pure function of the PRNG state)"""
    ch = rnd.choice

    def sub(pool, lo, hi):
        return rnd.sample(pool, rnd.randint(lo, min(hi, len(pool))))

    plain = sub(PLAIN, 2, 4)
    prefix = sub(PREFIX, 0, 2)
    known = sorted(plain) + sorted(prefix)
    pkgs = {}
    for name in PKGNAMES[: rnd.randint(1, 3)]:
        out = []
        # rarely the package is keyworded for an arch missing from arch.list (pkgcheck's UnknownKeywords situation)
        arches_here = known + (["zz"] if rnd.random() < 0.08 else [])
        for v in sorted(sub(VERSIONS, 1, 4), key=int):
            live = rnd.random() < 0.12
            kw = []
            if not live:
                for a in arches_here:
                    s = ch(["", "", "s", "s", "~", "~", "-"])
                    if s:
                        kw.append({"s": a, "~": "~" + a, "-": "-" + a}[s])
                if kw and rnd.random() < 0.1:
                    kw.insert(0, "-*")
            out.append({"v": v, "kw": kw, "live": live, "slot": ch(["0", "0", "0", "1"])})
        pkgs[name] = out
    stable = rnd.random() < 0.66
    lines = []

    def arch():
        a = ch(known)
        return ch([a, a, "~" + a])

    def uniq(xs):
        return list(dict.fromkeys(xs))

    for _ in range(rnd.randint(1, 4)):
        name = ch(sorted(pkgs))
        have = [x["v"] for x in pkgs[name]]
        form = ch(["eq"] * (30 if stable else 4) + ["eqmissing", "plain", "slot", "ge", "tilde", "eqslot"] * (1 if stable else 2))
        if form == "eq":
            spec = {"op": "=", "pkg": name, "ver": ch(have), "slot": None}
        elif form == "eqmissing":
            spec = {"op": "=", "pkg": name, "ver": ch(VERSIONS + ["3"]), "slot": None}
        elif form == "plain":
            spec = {"op": "", "pkg": name, "ver": None, "slot": None}
        elif form == "slot":
            spec = {"op": "", "pkg": name, "ver": None, "slot": ch(["0", "1"])}
        elif form == "ge":
            spec = {"op": ">=", "pkg": name, "ver": ch(VERSIONS), "slot": None}
        elif form == "tilde":
            spec = {"op": "~", "pkg": name, "ver": ch(have), "slot": None}
        else:
            spec = {"op": "=", "pkg": name, "ver": ch(have), "slot": ch(["0", "1"])}
        kind = ch(["arches", "arches", "arches", "star", "star", "caret", "none", "dash", "mixed"])
        if kind == "arches":
            kws = uniq(arch() for _ in range(rnd.randint(1, 3)))
        elif kind == "star":
            kws = ["*"]
        elif kind == "caret":
            kws = ["^"]
        elif kind == "none":
            kws = []
        elif kind == "dash":
            kws = ch([["-"], ["-"], ["amd64", "-"]])
        else:
            kws = uniq(ch([arch(), arch(), arch(), "*", "^", ch(["zz", "*", "^"] + known + PLAIN)]) for _ in range(rnd.randint(2, 3)))
        lines.append({"spec": spec, "kws": kws})
    cc = sub(known, 1, 2) if rnd.random() < 0.33 else []
    flt = sub(known + ["sparc"], 1, 2) if rnd.random() < 0.33 else []
    return {
        "arches": known, "pkgs": pkgs, "lines": lines, "stable": stable, "cc": cc, "filter": flt,
        "only_new": rnd.random() < 0.33, "allarches": rnd.random() < 0.5,
    }


def case_strategy():
    """hypothesis supplies one integer per case, expanded by `gen_case` (a composite strategy with ~40 draws cost
    18 ms per case, nine times the oracle); failing cases are minimised by `shrink_case` instead"""
    import random

    return st.integers(0, 2**62).map(lambda sd: gen_case(random.Random(sd)))


# --------------------------------------------------------------------------- model

def spec_str(s):
    out = f"{s['op']}test/{s['pkg']}"
    if s["ver"] is not None:
        out += f"-{s['ver']}"
    if s["slot"] is not None:
        out += f":{s['slot']}"
    return out


def model_match(case, s):
    """versions (dicts) of the repo model the spec matches"""
    out = []
    for x in case["pkgs"].get(s["pkg"], []):
        if s["slot"] is not None and x["slot"] != s["slot"]:
            continue
        if s["op"] in ("=", "~") and int(x["v"]) != int(s["ver"]):
            continue
        if s["op"] == ">=" and int(x["v"]) < int(s["ver"]):
            continue
        out.append(x)
    return out


def model_resolve(case, s, stable):
    m = sorted(model_match(case, s), key=lambda x: int(x["v"]), reverse=True)
    if not m:
        return None
    if stable:
        return m[0]
    for ok in (lambda x: bool(x["kw"]), lambda x: not x["live"], lambda x: True):
        for x in m:
            if ok(x):
                return x
    return None


def is_prefix(a):
    return "-" in a


def ref_suggested(case, pkg, ver, stable):
    """-> (suggested set, don't-care set) from the suggested_keywords docstring"""
    me = next(x for x in case["pkgs"][pkg] if x["v"] == ver)
    others = [x for x in case["pkgs"][pkg] if x["v"] != ver]
    if stable:
        testing_here = {k[1:] for k in me["kw"] if k.startswith("~")}
        stable_elsewhere = {k for o in others for k in o["kw"] if k[0] not in "~-"}
        return {a for a in testing_here & stable_elsewhere if not is_prefix(a)}, set()
    elsewhere = {k.lstrip("~") for o in others for k in o["kw"] if k[0] != "-"}
    here = {k.lstrip("~") for k in me["kw"] if k[0] != "-"}
    dontcare = {k[1:] for k in me["kw"] if k[0] == "-"}
    return {a for a in elsewhere - here if not is_prefix(a)}, dontcare


# --------------------------------------------------------------------------- real side

def build_repo(case):
    from pkgcore.repository.util import SimpleTree
    from pkgcore.test.misc import FakePkg

    cpv = {"test": {n: [x["v"] for x in vs] for n, vs in case["pkgs"].items()}}
    tree = SimpleTree(cpv, repo_id="c40")
    cache = {}

    def factory(cat, pkg, ver):
        k = (pkg, ver)
        o = cache.get(k)
        if o is None:
            x = next(x for x in case["pkgs"][pkg] if x["v"] == ver)
            o = FakePkg(f"{cat}/{pkg}-{ver}", eapi="8", repo=tree, slot=x["slot"], keywords=tuple(x["kw"]),
                        data={"PROPERTIES": "live" if x["live"] else ""})
            object.__setattr__(o, "keywords", tuple(x["kw"]))  # the real attribute is a tuple of strings
            cache[k] = o
        return o

    tree.package_class = factory
    tree.known_arches = frozenset(case["arches"])
    return tree


def check(ctx, case, record=True):
    from pkgcore.bugzilla.pkglist import PackageList
    from pkgcore.ebuild import keywording as K

    stable = case["stable"]
    lines = case["lines"]
    known = set(case["arches"])
    cc, flt = list(case["cc"]), list(case["filter"])
    text = "".join(" ".join([spec_str(l["spec"])] + l["kws"]) + "\n" for l in lines)
    repo = build_repo(case)
    requested = [(e.pkg, e.keywords) for e in PackageList(text).entries if e.pkg is not None]
    if len(requested) != len(lines):
        raise core.HarnessError(f"request text did not parse into {len(lines)} lines: {text!r}")
    consumed = []

    def feed():
        for i, item in enumerate(requested):
            consumed.append(i)
            yield item

    yields = []
    outcome = {"exc": None}

    def run():
        gen = K.match_packages(repo, feed(), stable=stable, cc_arches=tuple(cc), only_new=case["only_new"],
                               filter_arch=tuple(flt), allarches=case["allarches"])
        try:
            for r in gen:
                yields.append((consumed[-1] if consumed else -1, r.pkg.package, r.pkg.fullver, list(r.keywords)))
        except (K.PackageMatchException, K.KeywordNoneLeft) as e:
            outcome["exc"] = e
        return True

    ok = core.guarded(ctx, case, run)
    exc = outcome["exc"]
    excname = type(exc).__name__ if exc is not None else "none"
    stripped = [[k.strip().lstrip("~") for k in l["kws"]] for l in lines]
    cl = {"stable" if stable else "keywording", f"exc:{excname}", f"yields_{min(len(yields), 3)}"}
    if cc:
        cl.add("cc")
    if flt:
        cl.add("filter")
    if case["only_new"]:
        cl.add("only_new")
    if case["allarches"] and stable and flt:
        cl.add("allarches_effective")
    for s in stripped:
        if "*" in s:
            cl.add("star_line")
        if "^" in s:
            cl.add("caret_line")
        if "-" in s:
            cl.add("dash_line")
    interesting = bool(cl & {"cc", "filter", "only_new", "star_line", "caret_line"})

    if core.crashed(ok):
        if record:
            ctx.case(case, nontrivial=False, classes=sorted(cl))
        return

    # ---- per-yield invariants
    for (i, pname, pver, K_) in yields:
        if i < 0:
            raise core.HarnessError("yield before any line was consumed")
        l = lines[i]
        s = l["spec"]
        w = stripped[i]
        where = f"line {i + 1} {spec_str(s)!r} {l['kws']} -> test/{pname}-{pver} {K_}"
        want = model_resolve(case, s, stable)
        if want is None or pname != s["pkg"] or pver != want["v"]:
            ctx.violation("resolve:wrong-version", case, f"{where}; the spec denotes {want and want['v']}")
            continue
        me = want
        extras = ref_suggested(case, pname, pver, True)[0] if (case["allarches"] and stable and flt) else set()
        if extras - set(flt) and set(K_) & (extras - set(flt)):
            cl.add("allarches_extras_used")
        if "-" in w:
            ctx.violation("dash:line-yielded", case, f"{where}; '-' marks the line as having no keywords")
        unknown = set(K_) - known
        if unknown:
            via = "allarches-extra" if unknown <= extras else ("star" if "*" in w else "other")
            ctx.violation(f"unknown-arch:{via}", case, f"{where}; {sorted(unknown)} not in known arches {sorted(known)}")
        if cc and not set(K_) <= set(cc) | extras:
            ctx.violation("narrowing:cc", case, f"{where}; cc_arches={cc} all-arches extras={sorted(extras)}")
        if flt and not set(K_) <= set(flt) | extras:
            ctx.violation("narrowing:filter", case, f"{where}; filter_arch={flt} all-arches extras={sorted(extras)}")
        if case["only_new"]:
            present = [k for k in K_ if k in me["kw"] or (not stable and "~" + k in me["kw"])]
            if present:
                ctx.violation("narrowing:only-new", case, f"{where}; {present} already carried: KEYWORDS={me['kw']}")
            elif set(w) - {"*", "^"} and any(k in me["kw"] or (not stable and "~" + k in me["kw"]) for k in w):
                cl.add("only_new_dropped_something")
        sugg, dontcare = ref_suggested(case, pname, pver, stable)
        # (when nothing can be suggested a line falls back to cc_arches like a line without keywords; arches that are
        # "-arch" here are don't-care, the docstring does not say whether they count as missing)
        if w == ["*"] and ((sugg - dontcare) or not cc):
            got = set(K_) - extras
            pref = [k for k in got if is_prefix(k)]
            if pref:
                ctx.violation("star:prefix-keyword", case, f"{where}; prefix arches {pref} suggested")
            beyond = got - sugg - dontcare
            if beyond - set(pref):
                mode = "stable" if stable else "keywording"
                ctx.violation(f"star:{mode}-not-limited", case,
                              f"{where}; {sorted(beyond)} outside the allowed suggestions {sorted(sugg)} (KEYWORDS here {me['kw']})")
        if w and not (set(w) & {"*", "^"}):
            if not set(K_) <= set(w) | extras:
                ctx.violation("narrowing:invented-arch", case, f"{where}; written {w}")
        if not w and not set(K_) <= set(cc) | extras:
            ctx.violation("inherit:not-from-cc", case, f"{where}; nothing written, cc_arches={cc}")

    # ---- rejections
    last = consumed[-1] if consumed else -1
    for j, l in enumerate(lines):
        s = l["spec"]
        bad_for_stable = stable and (s["op"] != "=" or s["slot"] is not None)
        nomatch = not model_match(case, s)
        if not (bad_for_stable or nomatch):
            continue
        cl.add("has_stable_invalid_spec" if bad_for_stable else "has_unmatched_spec")
        if last < j:
            break  # stopped earlier for another (legitimate) reason
        kind = "stable-spec" if bad_for_stable else "nomatch"
        expect = K.PackageInvalid if bad_for_stable else K.PackageNoMatch
        if any(y[0] == j for y in yields):
            ctx.violation(f"reject:{kind}-yielded", case, f"line {j + 1} {spec_str(s)!r} produced a request instead of {expect.__name__}")
        elif last > j or exc is None:
            ctx.violation(f"reject:{kind}-passed-over", case, f"line {j + 1} {spec_str(s)!r} was passed over (outcome {excname}), expected {expect.__name__}")
        elif not isinstance(exc, expect):
            ctx.violation(f"reject:{kind}-wrong-error", case, f"line {j + 1} {spec_str(s)!r}: {excname}: {exc}, expected {expect.__name__}")
        else:
            cl.add("rejected:" + kind)
        break

    # ---- suggested_keywords differential for every version
    from pkgcore.ebuild.atom import atom

    for name, vs in case["pkgs"].items():
        for x in vs:
            pk = repo.match(atom(f"=test/{name}-{x['v']}"))
            if len(pk) != 1:
                raise core.HarnessError(f"fake repo does not hold test/{name}-{x['v']}")
            for mode in (True, False):
                got = core.guarded(ctx, case, lambda m=mode: set(K.suggested_keywords(repo, pk[0], stable=m)))
                if core.crashed(got):
                    continue
                ref, dc = ref_suggested(case, name, x["v"], mode)
                if got - dc != ref - dc:
                    tag = "stable" if mode else "keywording"
                    sub = "prefix" if any(is_prefix(a) for a in got) else ("extra" if (got - dc) - (ref - dc) else "missing")
                    ctx.violation(f"suggested:{tag}:{sub}", case,
                                  f"suggested_keywords(test/{name}-{x['v']}, stable={mode}) = {sorted(got)}, reference {sorted(ref)}; KEYWORDS {[(o['v'], o['kw']) for o in vs]}")
    if record:
        ctx.case(case, nontrivial=bool(yields) and interesting, classes=sorted(cl))


# --------------------------------------------------------------------------- runner glue

def plan(tier, seed):
    if tier == "quick":
        return [{"task": "hyp", "examples": 1200} for _ in range(12)]
    return [{"task": "hyp", "examples": 15000} for _ in range(16)]


def run_task(ctx, task, **kw):
    if task != "hyp":
        raise core.HarnessError(f"unknown task {task}")
    core.hyp_run(ctx, case_strategy(), lambda c: check(ctx, c), kw["examples"], chunk=400)


def replay(ctx, case):
    check(ctx, case)


def shrink_case(ctx, bucket, case):
    cur = copy.deepcopy(case)

    def holds(c):
        k = core.Ctx(ID, "quick", 0)
        try:
            check(k, c, record=False)
        except Exception:  # noqa: BLE001
            return False
        return bucket in k.violations

    def candidates(c):
        for i in range(len(c["lines"])):
            if len(c["lines"]) > 1:
                yield dict(c, lines=c["lines"][:i] + c["lines"][i + 1:])
        for name in list(c["pkgs"]):
            if all(l["spec"]["pkg"] != name for l in c["lines"]):
                yield dict(c, pkgs={k: v for k, v in c["pkgs"].items() if k != name})
            vs = c["pkgs"][name]
            for i in range(len(vs)):
                if len(vs) > 1:
                    yield dict(c, pkgs=dict(c["pkgs"], **{name: vs[:i] + vs[i + 1:]}))
                for k in range(len(vs[i]["kw"])):
                    v2 = dict(vs[i], kw=vs[i]["kw"][:k] + vs[i]["kw"][k + 1:])
                    yield dict(c, pkgs=dict(c["pkgs"], **{name: vs[:i] + [v2] + vs[i + 1:]}))
                if vs[i]["slot"] != "0":
                    yield dict(c, pkgs=dict(c["pkgs"], **{name: vs[:i] + [dict(vs[i], slot="0")] + vs[i + 1:]}))
        for key, simple in (("cc", []), ("filter", []), ("only_new", False), ("allarches", False)):
            if c[key] != simple:
                yield dict(c, **{key: simple})
        for i, l in enumerate(c["lines"]):
            for k in range(len(l["kws"])):
                yield dict(c, lines=c["lines"][:i] + [dict(l, kws=l["kws"][:k] + l["kws"][k + 1:])] + c["lines"][i + 1:])
        for a in c["arches"]:
            if len(c["arches"]) > 1:
                yield dict(c, arches=[x for x in c["arches"] if x != a], cc=[x for x in c["cc"] if x != a])

    progress = True
    rounds = 0
    while progress and rounds < 200:
        progress = False
        rounds += 1
        for cand in candidates(cur):
            if holds(cand):
                cur = cand
                progress = True
                break
    return cur
