"""C33 Install helpers create exactly the requested image entries.

Harness: the `ebd_ipc` command classes are built exactly as `ebd.__init__` builds `_ipc_helpers` (the dict literal
is lifted from the source of pkgcore.ebuild.ebd by AST, so construction order -- the option parser is shared -- is
the real one) around a fake build operation (SimpleNamespace: ED, pkg with a real EAPI object, recording observer)
and called in-process with a scripted fake `ebd` (scripted read() lines = what `__ebd_ipc_cmd` sends, recording
write()).  The option line is a transcription of data/lib/pkgcore/ebd/helpers/0/src_install/* (task "scripts"
runs the real bash helper scripts and compares their OPTIONS with the transcription, so the bash part of the
placement -- e.g. which destination tree a helper honours in which EAPI -- is covered too).

Oracle: vf/ref/install_model.py (PMS 12.3 placement rules) -> expected entries; the image snapshot after the call
must equal snapshot-before + expected entries (type, content, mode, owner, mtime with -p, link target), nothing
else added/removed/changed; "reject" cases must fail with a code and message, "ok" cases must succeed.
dosym -r: link content must be relative, resolve (lexically, from the link's directory) to the requested target,
and equal PMS algorithm 12.1 (own lexical implementation, cross-checked against `realpath -m -s --relative-to`).

Dropped vs DESIGN.md: compressed man pages, multi-character man sections (3pm...), symlink sources for helpers
where PMS is silent, pre-existing directories as dodir targets -- PMS does not prescribe them.  doins/dohtml of a
directory without -r is accepted either as failure or as skip (PMS silent).  Modes of implicitly created parent
directories are only checked under umask 022.
"""
from __future__ import annotations

import ast
import inspect
import os
import posixpath as pp
import shlex
import shutil
import stat
import subprocess
import types

from hypothesis import strategies as st

# imported at module level on purpose: the runner forks its workers after loading this module, so the (slow)
# pkgcore import is paid once instead of once per task
from pkgcore.ebuild import eapi as eapi_mod
from pkgcore.ebuild import ebd as ebd_mod
from pkgcore.ebuild import ebd_ipc
from pkgcore.ebuild.misc import get_relative_dosym_target

from .. import core, fsx
from .. import ebd as vebd
from ..ref import install_model as M


def _reset_signal_handlers():
    """pkgcore.ebuild.processor installs SIGTERM/SIGINT handlers (raising SystemExit/KeyboardInterrupt) at import.
    Inherited by the runner's pool workers they turn the pool's own SIGTERM into an exception at an arbitrary
    point (observed: deadlocked pool). The checks never rely on them: restore the defaults."""
    import signal as _signal

    try:
        _signal.signal(_signal.SIGTERM, _signal.SIG_DFL)
        _signal.signal(_signal.SIGINT, _signal.default_int_handler)
    except ValueError:  # not in the main thread
        pass


_reset_signal_handlers()

ID = "C33"
TITLE = "Install helpers create exactly the requested image entries"
LEVEL = "exploration"
TECHNIQUE = "differential vs. PMS placement model on generated source trees/invocations (hypothesis), image snapshot diff"
DESIGN_REF = "DESIGN.md §3 C33"
LEVEL_TEXT = (
    "Generated-input search: random source trees, destination settings, install option strings, EAPIs 0-8, umasks "
    "and helper invocations are run through the real ebd_ipc classes in-process; the resulting image directory is "
    "compared entry by entry with a reference placement model written from PMS; random absolute path pairs for "
    "dosym -r; the option lines produced by the real bash helper scripts are compared with the PMS destinations."
)
LEVEL_NOTE = (
    "Trusted: vf/ref/install_model.py (my reading of PMS 12.3), the fake build-operation object, GNU realpath for "
    "the algorithm 12.1 cross-check. Helpers are called in-process, not through a running daemon. No proof of absence."
)
RULE = (
    "case = (eapi, umask, helper, destination env, option strings, source tree, pre-existing image entry, args); "
    "non-trivial = model rejects, or the call involves recursion / a non-default option or destination / language "
    "handling / symlink / pre-existing destination / several arguments / umask != 022 / a relative link; "
    "distinct = distinct canonical JSON of the case"
)
ASSUMPTIONS = [
    "vf/ref/install_model.py is a faithful reading of PMS 12.3 (install commands) for the generated domain",
    "helpers are constructed in the order of the _ipc_helpers dict literal in pkgcore.ebuild.ebd (lifted by AST)",
    "the option line per helper is what helpers/0/src_install/<helper> builds (checked by task 'scripts')",
    "checks run as root (ownership options are exercised with numeric ids)",
]
BUDGET = {"quick": 50, "thorough": 900}

PF, PN, CATEGORY, SLOT = "pkg-1.0", "pkg", "cat", "0"
FILE_HELPERS = ("doins", "dodoc", "doexe", "dobin", "dosbin", "dolib", "dolib.so", "dolib.a", "doman", "domo", "dohtml")
ALL_HELPERS = FILE_HELPERS + ("dodir", "keepdir", "dosym", "dohard")


# =========================================================================================
# harness around the real classes
# =========================================================================================

class Observer:
    def __init__(self):
        self.log = []

    def warn(self, msg):
        self.log.append(("warn", str(msg)))

    def info(self, msg):
        self.log.append(("info", str(msg)))

    def error(self, msg):
        self.log.append(("error", str(msg)))

    def write(self, msg, **kw):
        self.log.append(("write", str(msg)))

    def flush(self):
        pass


class FakeEbd:
    """scripted read(), recording write(); read() hands out one line per call like EbuildProcessor.read()"""

    def __init__(self, lines=()):
        self.lines = list(lines)
        self.out = []
        self.reads = 0

    def read(self, lines=1):
        self.reads += 1
        if not self.lines:
            raise core.HarnessError("code under test read more lines than the request has")
        return self.lines.pop(0)

    def write(self, data, *a, **kw):
        self.out.append(data)


_HELPER_EXPRS = None


def _helper_exprs():
    """[(name, compiled expr)] from the `self._ipc_helpers = {...}` literal in ebd.__init__"""
    global _HELPER_EXPRS
    if _HELPER_EXPRS is None:
        tree = ast.parse(inspect.getsource(ebd_mod))
        found = None
        for node in ast.walk(tree):
            if isinstance(node, ast.Assign) and isinstance(node.value, ast.Dict):
                t = node.targets[0]
                if isinstance(t, ast.Attribute) and t.attr == "_ipc_helpers" and len(node.value.keys) > 10:
                    found = node.value
                    break
        if found is None:
            raise core.HarnessError("cannot find the _ipc_helpers dict literal in pkgcore.ebuild.ebd")
        out = []
        for k, v in zip(found.keys, found.values):
            out.append((ast.literal_eval(k), compile(ast.Expression(v), "<ipc_helpers>", "eval")))
        _HELPER_EXPRS = out
    return _HELPER_EXPRS


def make_op(eapi, ED, T, restrict=()):
    e = eapi_mod.get_eapi(str(eapi))
    pkg = types.SimpleNamespace(eapi=e, category=CATEGORY, PN=PN, slot=SLOT, PF=PF, restrict=tuple(restrict),
                                user_patches=[], use=())
    op = types.SimpleNamespace(pkg=pkg, observer=Observer(), ED=ED, env={"T": T, "DISTDIR": T}, userpriv=False,
                               domain=None)
    return op


def build_helpers(op):
    H = {}
    for name, code in _helper_exprs():
        H[name] = eval(code, {"ebd_ipc": ebd_ipc, "self": op})  # noqa: S307 (expression lifted from pkgcore source)
    op._ipc_helpers = H
    return H


def request_lines(nonfatal, cwd, phase, optline, args):
    """the five lines __ebd_ipc_cmd writes after the command name"""
    return ["true\n" if nonfatal else "false\n", cwd + "\n", phase + "\n", optline + "\n",
            "".join(a + "\0" for a in args) + "\n"]


def _bash_tree(v):
    """what into/insinto/exeinto/docinto store: '/' becomes the empty string"""
    return "" if v == "/" else v


def options_line(req):
    """transcription of helpers/0/src_install/<helper> (OPTIONS joined by blanks); destinations per PMS"""
    h = req["helper"]
    env = req.get("env", {})
    eapi = int(req["eapi"])
    into = _bash_tree(env.get("into", "/usr"))
    insopts = env.get("insopts", "-m0644")
    diropts = env.get("diropts", "-m0755")
    exeopts = env.get("exeopts", "-m0755")
    libopts = {"dolib": env.get("libopts", "-m0644"), "dolib.so": "-m0755", "dolib.a": "-m0644"}.get(h)
    doc = _bash_tree(env.get("docinto", ""))
    if h == "doins":
        return f'--dest="{_bash_tree(env.get("insinto", ""))}" --insoptions="{insopts}" --diroptions="{diropts}"'
    if h == "dodoc":
        return f'--dest="/usr/share/doc/{PF}/{doc}"'
    if h == "dohtml":
        return f'--dest="/usr/share/doc/{PF}/{doc or "html"}"'
    if h == "doexe":
        return f'--dest="{_bash_tree(env.get("exeinto", ""))}" --insoptions="{exeopts}"'
    if h in ("dobin", "dosbin"):
        return f'--dest="{into}/{h[2:]}"'
    if h in ("dolib", "dolib.so", "dolib.a"):
        return f'--dest="{into}/{env.get("libdir", "lib")}" --insoptions="{libopts}"'
    if h == "doman":
        return "--dest=/usr/share/man"
    if h == "domo":
        return f'--dest="{into}/share/locale"' if eapi <= 6 else "--dest=/usr/share/locale"
    if h in ("dodir", "keepdir"):
        return f'--diroptions="{diropts}"'
    if h in ("dosym", "dohard"):
        return ""
    raise core.HarnessError(f"no option line for {h}")


class Reply:
    """outcome of one request: .ok (bool or None if protocol broken), .code, .msg, .exc, .raw"""

    def __init__(self):
        self.raw = []
        self.exc = None
        self.ok = None
        self.code = None
        self.msg = None
        self.leftover = 0
        self.internal = False


def decode_reply(s):
    s = str(s)
    code, sep, msg = s.partition("\x07")
    return code, msg


def call_helper(H, name, optline, args, cwd, nonfatal=True, phase="install"):
    """one request through the real class; IpcError is the documented failure channel, anything else propagates"""
    fe = FakeEbd(request_lines(nonfatal, cwd, phase, optline, args))
    r = Reply()
    old = os.getcwd()
    try:
        H[name](fe)
    except ebd_ipc.IpcError as e:
        r.exc = e
        r.internal = isinstance(e, ebd_ipc.IpcInternalError)
    finally:
        os.chdir(old)
    r.raw = list(fe.out)
    r.leftover = len(fe.lines)
    if r.exc is None and len(r.raw) == 1:
        code, msg = decode_reply(r.raw[0])
        r.code, r.msg = code, msg
        r.ok = code == "0"
    elif r.exc is not None and not r.raw:
        r.code, r.msg = str(r.exc.code), r.exc.msg
        r.ok = False
    return r


# =========================================================================================
# comparison image <-> model
# =========================================================================================

def _ancestors(rel):
    out = []
    while True:
        rel = pp.dirname(rel)
        if not rel:
            return out
        out.append(rel)


def compare(before, after, res, umask, srcroot):
    """-> list of (kind, path, detail)"""
    problems = []
    entries = {k: v for k, v in res.entries.items() if v["type"] != "keepfile"}
    keep = [v["dir"] for v in res.entries.values() if v["type"] == "keepfile"]
    implied = set()
    for rel in list(entries) + [d for d in keep if d != "."]:
        implied.update(_ancestors(rel))
    keep_seen = {d: [] for d in keep}

    for rel, e in after.items():
        if rel == ".":
            continue
        spec = entries.get(rel)
        if spec is not None:
            continue
        par = pp.dirname(rel) or "."
        if par in keep_seen and e["type"] == "file" and pp.basename(rel).startswith(".keep") and rel not in before:
            keep_seen[par].append(rel)
            if e["size"] != 0:
                problems.append(("wrong-content", rel, "keep file is not empty"))
            continue
        b = before.get(rel)
        if b is not None:
            ch = [f for f in ("type", "mode", "uid", "gid", "sha", "target") if b.get(f) != e.get(f)]
            if ch and not (rel in implied and e["type"] == "dir" and b["type"] == "dir"):
                problems.append(("changed-unrelated", rel, ",".join(ch)))
            continue
        if rel in implied:
            if e["type"] != "dir":
                problems.append(("wrong-type", rel, f"parent is a {e['type']}"))
            elif umask == 0o022 and e["mode"] != 0o755:
                problems.append(("wrong-parent-mode", rel, oct(e["mode"])))
            continue
        if rel in res.optional and e["type"] == "dir":
            continue
        problems.append(("extra-entry", rel, e["type"]))

    for rel in before:
        if rel not in after:
            problems.append(("removed-entry", rel, before[rel]["type"]))

    for d, seen in keep_seen.items():
        if len(seen) != 1:
            problems.append(("keepfile", d, f"{len(seen)} new .keep* files"))

    for rel, spec in entries.items():
        e = after.get(rel)
        if e is None:
            problems.append(("missing-entry", rel, spec["type"]))
            continue
        t = spec["type"]
        if t == "file":
            if e["type"] != "file":
                problems.append(("wrong-type", rel, f"{e['type']} instead of file"))
                continue
            if spec.get("ambiguous"):
                continue  # several sources for this destination in one call: which one wins is unspecified
            s = fsx.entry(spec["src"])
            if e["sha"] != s["sha"]:
                problems.append(("wrong-content", rel, ""))
            if spec["mode"] is not None and e["mode"] != spec["mode"]:
                problems.append(("wrong-mode", rel, f"{oct(e['mode'])} expected {oct(spec['mode'])}"))
            if spec.get("uid") is not None and e["uid"] != spec["uid"]:
                problems.append(("wrong-owner", rel, f"uid {e['uid']} expected {spec['uid']}"))
            if spec.get("gid") is not None and e["gid"] != spec["gid"]:
                problems.append(("wrong-owner", rel, f"gid {e['gid']} expected {spec['gid']}"))
            if spec.get("preserve") and e["mtime"] != s["mtime"]:
                problems.append(("wrong-mtime", rel, f"{e['mtime']} expected {s['mtime']}"))
        elif t == "dir":
            if e["type"] != "dir":
                problems.append(("wrong-type", rel, f"{e['type']} instead of dir"))
                continue
            if spec["mode"] is not None and e["mode"] != spec["mode"]:
                problems.append(("wrong-dir-mode", rel, f"{oct(e['mode'])} expected {oct(spec['mode'])}"))
            if spec.get("uid") is not None and e["uid"] != spec["uid"]:
                problems.append(("wrong-owner", rel, f"uid {e['uid']} expected {spec['uid']}"))
        elif t == "sym":
            if e["type"] != "sym":
                problems.append(("wrong-type", rel, f"{e['type']} instead of symlink"))
            elif e["target"] != spec["target"]:
                problems.append(("wrong-target", rel, f"{e['target']!r} expected {spec['target']!r}"))
        elif t == "hardlink":
            o = after.get(spec["to"])
            if o is None or e["type"] != o["type"] or e.get("ino") is None or e["ino"] != o.get("ino"):
                problems.append(("not-hardlinked", rel, f"to {spec['to']}"))
    return problems


# =========================================================================================
# one case
# =========================================================================================

def classify(case, res):
    cl = [case["helper"], "eapi" + str(case["eapi"]), "status_" + res.status]
    args = case["args"]
    env = case.get("env", {})
    if case.get("umask", 0o022) != 0o022:
        cl.append("umask_non022")
    if "-r" in args[:1] or (case["helper"] == "dohtml" and "-r" in args):
        cl.append("recursive" if case["helper"] != "dosym" else "dosym_relative")
    for k in ("insopts", "diropts", "exeopts", "libopts"):
        if k in env:
            cl.append("custom_" + k)
            o = M.parse_install_opts(env[k].split())
            if o["owner"] or o["group"]:
                cl.append("owner_group")
            if o["preserve"]:
                cl.append("preserve_ts")
    for k in ("into", "insinto", "exeinto", "docinto"):
        if k in env:
            cl.append("custom_" + k)
    if case.get("pre", "none") != "none":
        cl.append("pre_" + case["pre"])
    if any(e["type"] == "sym" for e in res.entries.values()) and case["helper"] != "dosym":
        cl.append("symlink_source")
    if len([a for a in args if not a.startswith("-")]) > 1:
        cl.append("multi_arg")
    if case["helper"] == "doman":
        if any(a.startswith("-i18n") for a in args):
            cl.append("doman_i18n")
        for a in args:
            parts = os.path.basename(a).split(".")
            if len(parts) >= 3 and M.LANG_RE.match(parts[-2]):
                cl.append("doman_lang_region" if "_" in parts[-2] else "doman_lang")
                if not parts[0].replace("_", "").isalnum() or len(parts) > 3:
                    cl.append("doman_lang_odd_stem")
    if case["helper"] == "dohtml":
        for o in ("-a", "-A", "-f", "-x", "-p"):
            if o in args:
                cl.append("dohtml" + o)
    if any(" " in a or "'" in a for a in args) or any(" " in str(v) for k, v in env.items() if k.endswith("into")):
        cl.append("odd_chars")
    return cl


TRIVIAL_OK = {"umask_non022", "recursive", "dosym_relative", "pre_file", "pre_symlink", "symlink_source", "multi_arg",
              "doman_i18n", "doman_lang", "doman_lang_region", "odd_chars", "owner_group", "preserve_ts"}


def is_nontrivial(cl, res):
    if res.status != "ok":
        return True
    return any(c in TRIVIAL_OK or c.startswith("custom_") or c.startswith("dohtml-") for c in cl)


DOC_FAMILY = ("dodoc", "dohtml", "doman", "domo", "doinfo")  # fixed mode 0644, no --insoptions sent by the script


def split_args(h, args):
    """(option words, file arguments) the way the model reads them"""
    if h in ("doins", "dodoc", "dosym") and args[:1] == ["-r"]:
        return args[:1], args[1:]
    if h == "doman" and args and args[0].startswith("-i18n"):
        return args[:1], args[1:]
    if h == "dohtml":
        opts, files, it = [], [], iter(args)
        for a in it:
            if a in ("-r", "-V"):
                opts.append(a)
            elif a in ("-a", "-A", "-f", "-x", "-p"):
                opts += [a, next(it)]
            else:
                files.append(a)
        return opts, files
    return [], list(args)


def arg_features(h, arg, W):
    import re

    f = []
    p = arg if arg.startswith("/") else os.path.join(W, arg)
    if os.path.islink(p):
        f.append("symlink" if os.path.exists(p) else "dangling_symlink")
    elif os.path.isdir(p):
        f.append("dir")
    if h == "doman":
        parts = os.path.basename(arg).split(".")
        if len(parts) >= 3:
            lang = parts[-2]
            if M.LANG_RE.match(lang):
                if "_" in lang:
                    f.append("lang_region")
                elif len(parts) > 3 or not re.match(r"^\w+$", parts[0]):
                    f.append("lang_odd_stem")
                else:
                    f.append("lang")
            elif re.match(r"^[a-z]{2}[A-Z]{2}$", lang):
                f.append("not_a_lang")
    return f


def culprit_features(case, req, W, before, after):
    """features of the first argument whose own expected entries are not all present (None if every argument's
    entries are there, e.g. a pure mode problem)"""
    h = case["helper"]
    if h in ("dosym", "dohard", "dodir", "keepdir"):
        return None
    opts, files = split_args(h, req["args"])
    first_special = None
    for a in files:
        feats = arg_features(h, a, W)
        if feats and first_special is None:
            first_special = feats
        if after is None:
            continue
        one = M.model(dict(req, args=opts + [a]), W, before)
        for rel, spec in one.entries.items():
            e = after.get(rel)
            want = {"file": "file", "dir": "dir", "sym": "sym"}.get(spec["type"])
            if want and (e is None or e["type"] != want):
                return feats
            if want == "file" and not spec.get("ambiguous") and e.get("sha") != fsx.entry(spec["src"])["sha"]:
                return feats
    return first_special if after is None else None


def _qual(case, kind, feats):
    """root-cause qualifier for the bucket key"""
    h = case["helper"]
    q = list(feats or [])
    if kind in ("wrong-mode", "wrong-dir-mode", "wrong-parent-mode") and case.get("umask", 0o022) != 0o022:
        q.append("umask")
    if h == "doman" and any(a.startswith("-i18n") for a in case["args"]):
        q.append("i18n")
    if h == "dohtml" and "-r" in case["args"] and kind == "placement":
        q.append("recursive")
    if h == "dosym":
        if case["args"][:1] == ["-r"]:
            q.append("relative")
        if case.get("link_is_host_dir"):
            q.append("host_dir")
    if h == "dohard":
        q.append("abs_source" if case["args"][0].startswith("/") else "rel_source")
    return (":" + "+".join(sorted(set(q)))) if q else ""


_FAST = {}


def fast_dir(ctx, name="c33"):
    """scratch directory for one case: on tmpfs (/dev/shm) when available -- disk scratch under /var/tmp costs
    ~4 ms per rmdir on the shared machine -- else ctx.fresh_dir(). Removed by the caller after each case and by
    cleanup_fast() at the end of the task."""
    import tempfile

    base = _FAST.get(os.getpid())
    if base is None:
        base = ""
        if not os.environ.get("VERIF_SCRATCH") and os.path.isdir("/dev/shm") and os.access("/dev/shm", os.W_OK):
            try:
                base = tempfile.mkdtemp(prefix=f"vf-{ctx.pid}-{os.getpid()}-", dir="/dev/shm")
            except OSError:
                base = ""
        _FAST[os.getpid()] = base
    if not base:
        return ctx.fresh_dir(name)
    return tempfile.mkdtemp(prefix=name + "-", dir=base)


def cleanup_fast():
    base = _FAST.pop(os.getpid(), None)
    if base:
        shutil.rmtree(base, ignore_errors=True)


def run_case(ctx, case, record=True):
    root = fast_dir(ctx, "c33")
    old_umask = os.umask(0o022)
    try:
        ED = os.path.join(root, "image") + "/"
        W = os.path.join(root, "work")
        T = os.path.join(root, "temp")
        for d in (ED, W, T):
            os.makedirs(d)
        fsx.build(W, case.get("src", []))
        fsx.build(ED, case.get("image", []))
        args = [a.replace("@W@", W) for a in case["args"]]
        req = dict(case, args=args, PF=PF, PN=PN)
        res0 = M.model(req, W, fsx.snapshot(ED))
        # pre-existing destination entry
        pre = case.get("pre", "none")
        if pre != "none" and res0.status == "ok":
            first = sorted(k for k, v in res0.entries.items() if v["type"] == "file")[:1]
            for rel in first:
                p = os.path.join(ED, rel)
                os.makedirs(os.path.dirname(p), exist_ok=True)
                if pre == "file":
                    with open(p, "w") as f:
                        f.write("old content")
                    os.chmod(p, 0o600)
                else:
                    os.symlink("elsewhere-target", p)
        before = fsx.snapshot(ED)
        res = M.model(req, W, before)
        case["link_is_host_dir"] = bool(
            case["helper"] == "dosym" and len(args) >= 2 and os.path.isdir(args[-1]) and not os.path.islink(args[-1]))
        cl = classify(case, res)
        if case["link_is_host_dir"]:
            cl.append("link_is_host_dir")
        if case.get("dangling"):
            cl.append("dangling_symlink")
        if record:
            ctx.case(case, nontrivial=is_nontrivial(cl, res), classes=cl)

        op = make_op(case["eapi"], ED, T)
        H = core.guarded(ctx, case, lambda: build_helpers(op))
        if core.crashed(H):
            return
        optline = options_line(case)
        os.umask(case.get("umask", 0o022))
        try:
            r = core.guarded(ctx, case, lambda: call_helper(H, case["helper"], optline, args, W, nonfatal=True))
        finally:
            os.umask(0o022)
        if core.crashed(r):
            return
        h = case["helper"]
        fam = "docfamily" if h in DOC_FAMILY else h
        if r.internal:
            cause = r.exc.__cause__
            q = _qual(case, "crash", culprit_features(case, req, W, before, None))
            if "i18n" in q:
                q = ":i18n"  # option parsing fails before any file name is looked at
            ctx.violation(f"internal-failure:{h}{q or ':' + type(cause).__name__}", case,
                          f"IpcInternalError from {type(cause).__name__}: {cause}; model: {res.status} {res.reason}")
            return
        if r.ok is None:
            ctx.violation(f"protocol:{h}", case, f"replies={r.raw!r} exc={r.exc!r}")
            return
        after = fsx.snapshot(ED)
        if res.status == "reject":
            if r.ok:
                ctx.violation(f"false-accept:{h}{_qual(case, 'false-accept', None)}", case,
                              f"PMS forbids this ({res.reason}) but the helper reported success")
            elif not r.msg:
                ctx.violation(f"reject-without-message:{h}", case, f"code={r.code!r} msg={r.msg!r}")
            return
        if not r.ok:
            if res.status == "either":
                return
            q = _qual(case, "false-reject", culprit_features(case, req, W, before, None))
            ctx.violation(f"false-reject:{h}{q}", case, f"valid per PMS but failed: code={r.code} msg={r.msg!r}")
            return
        probs = compare(before, after, res, case.get("umask", 0o022), W)
        kinds = {k for k, _, _ in probs}
        if kinds & {"missing-entry", "extra-entry", "wrong-type"}:
            # one placement root cause usually shows as missing + extra (+ content) at once: one bucket
            q = _qual(case, "placement", culprit_features(case, req, W, before, after))
            ctx.violation(f"placement:{h}{q}", case, f"image differs from PMS placement: {probs[:8]!r}")
        else:
            seen = set()
            for kind, path, detail in probs:
                b = f"{kind}:{fam if kind == 'wrong-mode' else h}{_qual(case, kind, None)}"
                if b in seen:
                    continue
                seen.add(b)
                ctx.violation(b, case, f"{kind} at {path!r} {detail}; all: {probs[:6]!r}")
        # dosym -r resolution property (independent of the model's string)
        if h == "dosym" and args[:1] == ["-r"] and res.status == "ok":
            lrel = pp.normpath(args[2].lstrip("/"))
            e = after.get(lrel)
            if e is not None and e["type"] == "sym":
                tgt = e["target"]
                want = _lex_norm(args[1])
                if tgt.startswith("/"):
                    ctx.violation("dosym-r:absolute", case, f"link content {tgt!r} is not relative")
                else:
                    got = _lex_norm(pp.join(pp.dirname("/" + lrel), tgt))
                    if got != want:
                        ctx.violation("dosym-r:resolves-elsewhere", case, f"{tgt!r} from {pp.dirname('/' + lrel)!r} gives {got!r}, requested {want!r}")
    finally:
        os.umask(old_umask)
        shutil.rmtree(root, ignore_errors=True)


# =========================================================================================
# generators
# =========================================================================================

FILE_NAMES = ["a.txt", "README", "b.conf", "x y.txt", "it's.dat", "lib.so.1", "data.bin", "Makefile", "ü.txt", "c"]
DIR_NAMES = ["d", "docs", "sub dir", "inc"]
DEST_TREES = ["/usr/share/foo", "/etc/foo.d", "/opt/my app", "/", "/usr/libexec/x/", "var/lib/x"]
INTO_TREES = ["/usr", "/", "/usr/local", "/opt/p"]
DOC_TREES = ["sub", "/", "html/x", "a b"]
MODES = ["-m0644", "-m0600", "-m 0755", "-m644", "--mode=0640", "-m4755", "-m0444", "-m 750"]
OWN = ["-o 1234", "-g 4321", "-o0 -g0", "-o root", "--owner=1234 --group=4321", "-p", "-pm0600", "-p -m0640"]
SRC_MODES = [0o644, 0o600, 0o755, 0o444]
UMASKS = [0o022, 0o022, 0o022, 0o027, 0o077, 0o002]


def _file(path, i=0, mode=0o644):
    return {"path": path, "type": "file", "data": f"content of {path} #{i}\n", "mode": mode, "mtime": 1_000_000_000 + 977 * i}


@st.composite
def opt_string(draw):
    parts = [draw(st.sampled_from(MODES))] if draw(st.integers(0, 9)) < 8 else []
    if draw(st.integers(0, 9)) < 3:
        parts.append(draw(st.sampled_from(OWN)))
    if not parts:
        parts = [draw(st.sampled_from(OWN))]
    return " ".join(parts)


@st.composite
def src_tree(draw, names=FILE_NAMES, symlinks=False, depth_dirs=True):
    spec = []
    nfiles = draw(st.integers(1, 4))
    files = draw(st.lists(st.sampled_from(names), min_size=nfiles, max_size=nfiles, unique=True))
    for i, n in enumerate(files):
        spec.append(_file(n, i, draw(st.sampled_from(SRC_MODES))))
    dirs = []
    dangling = False
    if depth_dirs:
        dirs = draw(st.lists(st.sampled_from(DIR_NAMES), min_size=1, max_size=2, unique=True))
        for j, d in enumerate(dirs):
            spec.append({"path": d, "type": "dir", "mode": draw(st.sampled_from([0o755, 0o700]))})
            inner = draw(st.lists(st.sampled_from(names), min_size=0, max_size=3, unique=True))
            for i, n in enumerate(inner):
                spec.append(_file(f"{d}/{n}", 10 * j + i + 5, draw(st.sampled_from(SRC_MODES))))
            if draw(st.booleans()):
                sd = draw(st.sampled_from(["s", "deep dir", "empty"]))
                spec.append({"path": f"{d}/{sd}", "type": "dir"})
                if sd != "empty":
                    spec.append(_file(f"{d}/{sd}/z.txt", 50 + j))
            if symlinks and inner and draw(st.integers(0, 2)) == 0:
                kind = draw(st.sampled_from(["rel", "dangling", "dirlink"]))
                if kind == "rel":
                    spec.append({"path": f"{d}/link", "type": "sym", "target": inner[0]})
                elif kind == "dangling":
                    spec.append({"path": f"{d}/dangle", "type": "sym", "target": "/nonexistent/target"})
                    dangling = True
                else:
                    spec.append({"path": f"{d}/dlink", "type": "sym", "target": "."})
    tops = list(files)
    if symlinks and draw(st.integers(0, 3)) < 2:
        kind = draw(st.sampled_from(["rel", "dangling"]))
        if kind == "rel":
            spec.append({"path": "toplink", "type": "sym", "target": files[0]})
        else:
            spec.append({"path": "toplink", "type": "sym", "target": "../nowhere/x"})
            dangling = True
        tops.append("toplink")
    return spec, tops, dirs, dangling


def _spell(draw, name, is_dir=False):
    """argument spellings; directories also as `dir/`, `dir/.` (the "contents of" idiom), `./dir/`"""
    if is_dir:
        # (hypothesis favours early elements: the less common spellings come first)
        return draw(st.sampled_from([name + "/.", name, name + "/", "./" + name, "@W@/" + name + "/.", name,
                                     "./" + name + "/", "@W@/" + name]))
    k = draw(st.integers(0, 9))
    if k == 0:
        return "./" + name
    if k == 1:
        return "@W@/" + name
    return name


@st.composite
def file_case(draw, helper=None):
    h = helper or draw(st.sampled_from(["doins", "doins", "doins", "dodoc", "dodoc", "doexe", "dobin", "dosbin", "dolib",
                                        "dolib.so", "dolib.a"]))
    if h == "dolib":
        eapi = draw(st.integers(0, 6))
    else:
        eapi = draw(st.integers(0, 8))
    symlinks = (h == "doins" and eapi >= 4)
    spec, tops, dirs, dangling = draw(src_tree(symlinks=symlinks, depth_dirs=h in ("doins", "dodoc")))
    if h == "dolib.so" and draw(st.booleans()):
        spec.append({"path": "libz.so", "type": "sym", "target": tops[0]})
        tops = tops + ["libz.so"]
    env = {}
    args = []
    if h == "doins":
        if draw(st.integers(0, 9)) < 7:
            env["insinto"] = draw(st.sampled_from(DEST_TREES))
        if draw(st.integers(0, 9)) < 5:
            env["insopts"] = draw(opt_string())
        if draw(st.integers(0, 9)) < 3:
            env["diropts"] = draw(st.sampled_from(["-m0750", "-m 0700", "-m0755 -o 1234", "--mode=0711"]))
    elif h == "dodoc":
        if draw(st.integers(0, 9)) < 4:
            env["docinto"] = draw(st.sampled_from(DOC_TREES))
    elif h == "doexe":
        env["exeinto"] = draw(st.sampled_from(DEST_TREES))
        if draw(st.integers(0, 9)) < 4:
            env["exeopts"] = draw(opt_string())
    else:
        if draw(st.integers(0, 9)) < 4:
            env["into"] = draw(st.sampled_from(INTO_TREES))
        if h == "dolib" and draw(st.integers(0, 9)) < 4:
            env["libopts"] = draw(opt_string())
    recursive = h in ("doins", "dodoc") and draw(st.integers(0, 9)) < 5
    if recursive:
        args.append("-r")
    n = draw(st.integers(1, 3))
    pool = [(t, False) for t in tops]
    if dirs and (recursive or draw(st.integers(0, 9)) < 2):
        pool += [(d, True) for d in dirs]
    chosen = draw(st.lists(st.sampled_from(pool), min_size=1, max_size=n, unique=True))
    if recursive and dirs and not any(is_dir for _, is_dir in chosen):
        # a recursive call without any directory argument exercises nothing recursive
        chosen = [(draw(st.sampled_from(dirs)), True)] + chosen[:n - 1]
    for name, is_dir in chosen:
        args.append(_spell(draw, name, is_dir))
    if draw(st.integers(0, 19)) == 0:
        args.append("missing-file")
    case = {"eapi": str(eapi), "umask": draw(st.sampled_from(UMASKS)), "helper": h, "env": env, "src": spec,
            "args": args, "pre": draw(st.sampled_from(["none", "none", "none", "file", "symlink"]))}
    if dangling:
        case["dangling"] = True
    return case


MAN_STEMS = ["foo", "foo-bar", "a.b", "x_y", "Foo"]
MAN_LANGS = [None, None, "de", "pt_BR", "zh_CN", "fr", "ptBR", "deu"]
MAN_SECTS = ["1", "3", "5", "8", "n", "0"]


@st.composite
def man_case(draw):
    eapi = draw(st.integers(0, 8))
    n = draw(st.integers(1, 3))
    names = []
    for _ in range(n):
        if draw(st.integers(0, 11)) == 0:
            names.append(draw(st.sampled_from(["README", "foo"])))
            continue
        stem, lang, sect = draw(st.sampled_from(MAN_STEMS)), draw(st.sampled_from(MAN_LANGS)), draw(st.sampled_from(MAN_SECTS))
        names.append(".".join(x for x in (stem, lang, sect) if x))
    names = sorted(set(names), key=names.index)
    spec = [_file(nm, i) for i, nm in enumerate(names)]
    in_dir = draw(st.integers(0, 5)) == 0
    if in_dir:
        spec = [dict(s, path="man/" + s["path"]) for s in spec]
        names = ["man/" + nm for nm in names]
    args = []
    k = draw(st.integers(0, 9))
    if k < 3:
        args.append("-i18n=" + draw(st.sampled_from(["de", "pt_BR", "fr", ""])))
    args += names
    return {"eapi": str(eapi), "umask": draw(st.sampled_from(UMASKS)), "helper": "doman", "env": {}, "src": spec,
            "args": args, "pre": draw(st.sampled_from(["none", "none", "file"]))}


@st.composite
def mo_case(draw):
    eapi = draw(st.integers(0, 8))
    names = draw(st.lists(st.sampled_from(["ja_JP.eucJP.mo", "ja_JP.mo", "de_DE.UTF-8.mo", "de.mo", "en@quot.UTF-8.mo", "pt_BR.mo",
                                             "fr.gmo", "en@quot.mo", "po/sv.mo", "de_DE.mo", "sr@latin.mo"]), min_size=1, max_size=3, unique=True))
    spec = [_file(nm, i) for i, nm in enumerate(names)]
    env = {}
    if draw(st.booleans()):
        env["into"] = draw(st.sampled_from(INTO_TREES))
    return {"eapi": str(eapi), "umask": draw(st.sampled_from(UMASKS)), "helper": "domo", "env": env, "src": spec,
            "args": names, "pre": "none"}


HTML_FILES = ["index.html", "a.htm", "style.css", "app.js", "logo.png", "pic.jpeg", "notes.txt", "data.xml", "README", "x.svg"]


@st.composite
def html_case(draw):
    eapi = draw(st.integers(0, 6))
    top = draw(st.lists(st.sampled_from(HTML_FILES), min_size=1, max_size=4, unique=True))
    spec = [_file(nm, i) for i, nm in enumerate(top)]
    dirs = draw(st.lists(st.sampled_from(["api", "img", "priv"]), min_size=0, max_size=2, unique=True))
    for j, d in enumerate(dirs):
        spec.append({"path": d, "type": "dir"})
        for i, nm in enumerate(draw(st.lists(st.sampled_from(HTML_FILES), min_size=0, max_size=3, unique=True))):
            spec.append(_file(f"{d}/{nm}", 20 * j + i + 7))
        if draw(st.booleans()):
            sub = draw(st.sampled_from(["priv", "deep", "none"]))
            spec.append({"path": f"{d}/{sub}", "type": "dir"})
            if sub != "none":
                spec.append(_file(f"{d}/{sub}/" + draw(st.sampled_from(HTML_FILES)), 70 + j))
    args = []
    rec = bool(dirs) and draw(st.integers(0, 9)) < 8
    if rec:
        args.append("-r")
    if draw(st.integers(0, 9)) < 2:
        args += ["-a", draw(st.sampled_from(["xml,html", "txt", "html"]))]
    if draw(st.integers(0, 9)) < 2:
        args += ["-A", draw(st.sampled_from(["txt", "xml,svg"]))]
    if draw(st.integers(0, 9)) < 2:
        args += ["-f", draw(st.sampled_from(["README", "README,notes.txt"]))]
    if rec and draw(st.integers(0, 9)) < 3:
        args += ["-x", draw(st.sampled_from(["priv", "priv,img"]))]
    if draw(st.integers(0, 9)) < 2:
        args += ["-p", draw(st.sampled_from(["pre", "pre/fix", "/abs"]))]
    files = draw(st.lists(st.sampled_from(top), min_size=0 if (dirs and rec) else 1, max_size=3, unique=True))
    args += files
    if dirs and (rec or draw(st.integers(0, 9)) == 0):
        args += draw(st.lists(st.sampled_from(dirs), min_size=1, max_size=2, unique=True))
    env = {}
    if draw(st.integers(0, 9)) < 2:
        env["docinto"] = draw(st.sampled_from(DOC_TREES))
    return {"eapi": str(eapi), "umask": draw(st.sampled_from(UMASKS)), "helper": "dohtml", "env": env, "src": spec,
            "args": args, "pre": "none"}


DIR_ARGS = ["/var/lib/foo", "/etc/x", "usr/share/y", "/a/b/c/", "/opt/with space", "/var/lib/foo/bar", "/usr/share/doc/pkg-1.0/z"]


@st.composite
def dir_case(draw):
    h = draw(st.sampled_from(["dodir", "keepdir"]))
    eapi = draw(st.integers(0, 8))
    args = draw(st.lists(st.sampled_from(DIR_ARGS), min_size=1, max_size=3, unique=True))
    env = {}
    if draw(st.integers(0, 9)) < 5:
        env["diropts"] = draw(st.sampled_from(["-m0750", "-m 0700", "-m0755 -o 1234 -g 4321", "--mode=0711", "-m1777", "-o 1234"]))
    image = []
    if draw(st.integers(0, 3)) == 0:
        image.append({"path": "var/lib", "type": "dir", "mode": 0o711})
    return {"eapi": str(eapi), "umask": draw(st.sampled_from(UMASKS)), "helper": h, "env": env, "src": [], "image": image,
            "args": args, "pre": "none"}


COMPS = ["usr", "lib", "bin", "share", "foo", "a b", "x", "lib64"]


@st.composite
def abs_path(draw, noisy=2):
    """noisy: 0 plain, 1 with // and /./, 2 also /../"""
    n = draw(st.integers(1, 5))
    comps = [draw(st.sampled_from(COMPS)) for _ in range(n)]
    out = ""
    for c in comps:
        sep = "/"
        if noisy:
            k = draw(st.integers(0, 19))
            if k == 0:
                sep = "//"
            elif k == 1:
                sep = "/./"
            elif k == 2 and out and noisy >= 2:
                sep = "/../"
        out += sep + c
    return out


HOST_DIRS = ["/etc", "/var", "/opt", "/usr/share", "/lib", "/usr/lib", "/home"]


@st.composite
def sym_case(draw):
    eapi = draw(st.sampled_from([0, 4, 7, 8, 8, 8, 8]))
    rel = draw(st.integers(0, 9)) < 6
    args = ["-r"] if rel else []
    image = []
    if rel:
        tgt = draw(abs_path()) if draw(st.integers(0, 11)) else "lib/foo"
        k = draw(st.integers(0, 19))
        link = draw(abs_path(noisy=draw(st.integers(0, 1))))
        if k == 0:
            link = link.lstrip("/")
        elif k == 1:
            link += "/"
        if draw(st.integers(0, 7)) == 0:
            # target inside / equal to the link's directory
            tgt = pp.dirname(link.rstrip("/")) or "/"
    else:
        tgt = draw(st.sampled_from(["foo", "../lib/foo", "/usr/lib/foo", "a b", "../../x", "."]))
        k = draw(st.integers(0, 11))
        if k == 0:
            link = draw(st.sampled_from(HOST_DIRS))
        elif k == 1:
            link = draw(abs_path(noisy=0)) + "/"
        elif k == 2:
            link = draw(abs_path(noisy=0)).lstrip("/")
        else:
            link = draw(abs_path(noisy=0))
    pre = draw(st.integers(0, 9))
    lrel = pp.normpath(link.strip("/")) if link.strip("/") else ""
    if lrel and pre == 0:
        image.append({"path": lrel, "type": "dir"})
    elif lrel and pre == 1:
        image.append({"path": lrel, "type": "file", "data": "old"})
    elif lrel and pre == 2:
        image.append({"path": "real dir", "type": "dir"})
        image.append({"path": lrel, "type": "sym", "target": "/real dir"})
    args += [tgt, link]
    return {"eapi": str(eapi), "umask": 0o022, "helper": "dosym", "env": {}, "src": [], "image": image, "args": args, "pre": "none"}


@st.composite
def hard_case(draw):
    eapi = draw(st.integers(0, 3))
    src = draw(st.sampled_from(["usr/share/a.txt", "usr/bin/tool", "etc/x y"]))
    image = [_file(src, 1)]
    s_arg = draw(st.sampled_from(["/" + src, "/" + src, src]))
    link = draw(st.sampled_from(["/usr/share/b.txt", "/usr/bin/tool2", "usr/other/c", "/etc/x z"]))
    if draw(st.integers(0, 9)) == 0:
        s_arg = "/usr/share/missing"
    return {"eapi": str(eapi), "umask": 0o022, "helper": "dohard", "env": {}, "src": [], "image": image,
            "args": [s_arg, link], "pre": "none"}


def any_case():
    return st.one_of(file_case(), file_case(), file_case(), man_case(), man_case(), mo_case(), html_case(), html_case(),
                     dir_case(), sym_case(), sym_case(), hard_case())


STRATS = {"files": file_case, "man": man_case, "mo": mo_case, "html": html_case, "dirs": dir_case, "sym": sym_case,
          "hard": hard_case, "mix": any_case}


# =========================================================================================
# task "relpath": PMS algorithm 12.1 on path pairs, cross-checked with realpath(1)
# =========================================================================================

def relpath_pairs(ctx, n):
    pairs = []

    def collect(p):
        pairs.append(p)

    core.hyp_run(ctx, st.tuples(abs_path(), abs_path(), st.booleans()), collect, n, chunk=500, seed_salt=7)
    # oracle self-check against coreutils on a slice
    for tgt, link, strip in pairs[:25]:
        l2 = link.lstrip("/") if strip else link
        r = subprocess.run(["realpath", "-m", "-s", "--relative-to=" + pp.dirname("/" + l2.lstrip("/")), tgt],
                           capture_output=True, text=True, timeout=20)
        mine = M.lexical_relpath(tgt, pp.dirname("/" + l2.lstrip("/")))
        if r.returncode == 0 and r.stdout.rstrip("\n") != mine:
            raise core.HarnessError(f"model lexical_relpath disagrees with realpath(1): {tgt!r} {l2!r}: {mine!r} vs {r.stdout!r}")
    for tgt, link, strip in pairs:
        l2 = link.lstrip("/") if strip else link
        case = {"target": tgt, "link": l2}
        linkdir = pp.dirname("/" + l2.lstrip("/"))
        want = M.lexical_relpath(tgt, linkdir)
        cl = ["relpath"]
        if ".." in want:
            cl.append("goes_up")
        if "//" in tgt or "/./" in tgt or "/../" in tgt or "//" in l2 or "/../" in l2:
            cl.append("unnormalised_input")
        if strip:
            cl.append("link_without_leading_slash")
        ctx.case(case, nontrivial=want not in (".",) and (len(cl) > 1), classes=cl)
        got = core.guarded(ctx, case, lambda: get_relative_dosym_target(tgt, l2))
        if core.crashed(got):
            continue
        if got.startswith("/"):
            ctx.violation("relpath:absolute", case, f"{got!r}")
            continue
        res = _lex_norm(pp.join(_lex_norm(linkdir), got))
        if res != _lex_norm(tgt):
            ctx.violation("relpath:resolves-elsewhere", case, f"{got!r} from {linkdir!r} -> {res!r}, wanted {_lex_norm(tgt)!r}")
        elif got != want:
            ctx.violation("relpath:not-pms-algorithm", case, f"{got!r}, `realpath -m -s --relative-to` gives {want!r}")


def _lex_norm(p):
    out = []
    for c in p.split("/"):
        if c in ("", "."):
            continue
        if c == "..":
            if out:
                out.pop()
            continue
        out.append(c)
    return "/" + "/".join(out)


# =========================================================================================
# task "scripts": OPTIONS built by the real bash helper scripts vs the transcription
# =========================================================================================

SCRIPT_HEAD = r'''
source "$EBD/helpers/internals/helper-lib.bash" 2>/dev/null
source "$EBD/eapi/common.bash" 2>/dev/null
__helper_exit() { :; }
'''
SCRIPT_HELPERS = ["doins", "dodoc", "dohtml", "doexe", "dobin", "dosbin", "dolib", "dolib.so", "dolib.a", "doman", "domo",
                  "dodir", "keepdir", "dosym", "dohard"]


def _script_env(case):
    env = case.get("env", {})
    e = eapi_mod.get_eapi(case["eapi"])
    return {
        **{k: str(v) for k, v in e.ebd_env.items()},
        "PF": PF, "ED": "/nonexistent/image/", "D": "/nonexistent/image/",
        "PKGCORE_DESTTREE": _bash_tree(env.get("into", "/usr")),
        "PKGCORE_INSDESTTREE": _bash_tree(env.get("insinto", "")),
        "PKGCORE_EXEDESTTREE": _bash_tree(env.get("exeinto", "")),
        "PKGCORE_DOCDESTTREE": _bash_tree(env.get("docinto", "")),
        "INSOPTIONS": env.get("insopts", "-m0644"), "DIROPTIONS": env.get("diropts", "-m0755"),
        "EXEOPTIONS": env.get("exeopts", "-m0755"), "LIBOPTIONS": env.get("libopts", "-m0644"),
        "PKGCORE_PREFIX_SUPPORT": "false", "PKGCORE_NONFATAL": "false",
    }


def run_scripts(ctx, cases):
    """OPTIONS string built by the real helper script for each case (all cases in one bash process)"""
    parts = [SCRIPT_HEAD]
    for i, c in enumerate(cases):
        exports = " ".join(f"{k}={shlex.quote(v)}" for k, v in sorted(_script_env(c).items()))
        h = shlex.quote(c["helper"])
        # no subshell per case (fork is expensive on a loaded machine): every variable is re-assigned each time
        parts.append(f"export {exports}; HELPER_NAME={h}; OPTIONS=(); source \"$EBD/helpers/0/src_install/\"{h}; "
                     f"printf '%s\\037%s\\n' {i} \"${{OPTIONS[*]}}\"")
    # the script goes through a file: a few hundred cases exceed the kernel's per-argument limit for `bash -c`
    d = fast_dir(ctx, "scripts")
    try:
        sp = os.path.join(d, "driver.bash")
        with open(sp, "w") as f:
            f.write("\n".join(parts))
        r = vebd.bash_eval(f"source {shlex.quote(sp)}", env={"EBD": vebd.ebd_dir()}, timeout=600)
    finally:
        shutil.rmtree(d, ignore_errors=True)
    out = {}
    for line in r.stdout.decode("utf8", "replace").splitlines():
        i, sep, v = line.partition("\x1f")
        if sep and i.isdigit():
            out[int(i)] = v
    if len(out) != len(cases):
        raise core.HarnessError(f"script driver produced {len(out)} of {len(cases)} answers: {r.stderr[-400:]!r}")
    return [out[i] for i in range(len(cases))]


@st.composite
def script_case(draw):
    # dolib* cost a fork each ($(__get_libdir)); destination-tree dependent helpers get more weight
    h = draw(st.sampled_from(SCRIPT_HELPERS + ["domo", "domo", "domo", "dobin", "dosbin", "doins", "doexe", "dodoc", "dohtml"]))
    if h.startswith("dolib") and draw(st.booleans()):
        h = "domo"
    eapi = draw(st.integers(0, 8))
    env = {}
    for k, pool in (("into", INTO_TREES), ("insinto", DEST_TREES), ("exeinto", DEST_TREES), ("docinto", DOC_TREES)):
        if draw(st.booleans()):
            env[k] = draw(st.sampled_from(pool))
    for k in ("insopts", "diropts", "exeopts", "libopts"):
        if draw(st.integers(0, 3)) == 0:
            env[k] = draw(opt_string())
    return {"eapi": str(eapi), "helper": h, "env": env}


def check_scripts(ctx, cases):
    got_all = run_scripts(ctx, cases)
    for case, got in zip(cases, got_all):
        h, env = case["helper"], case["env"]
        want = options_line(case)
        cl = ["script", h, "eapi" + case["eapi"]] + ["custom_" + k for k in env]
        ctx.case(case, nontrivial=bool(env), classes=cl)
        if shlex.split(got) != shlex.split(want):
            ctx.violation(f"script-options:{h}", case, f"helper script builds {got!r}; PMS destination needs {want!r}")


def script_cases(ctx, n):
    cases = []
    core.hyp_run(ctx, script_case(), cases.append, n, chunk=500, seed_salt=11)
    for i in range(0, len(cases), 250):
        check_scripts(ctx, cases[i:i + 250])


# =========================================================================================
# runner interface
# =========================================================================================

def plan(tier, seed):
    tasks = []
    if tier == "quick":
        w = {"files": 400, "man": 300, "html": 300, "mo": 80, "dirs": 150, "sym": 400, "hard": 60, "mix": 500}
        reps = 1
        rel, scr = 2000, 200
    else:
        w = {"files": 6000, "man": 3000, "html": 3000, "mo": 600, "dirs": 1500, "sym": 4000, "hard": 400, "mix": 6000}
        reps = 2
        rel, scr = 40000, 1500
    for r in range(reps):
        for k, n in w.items():
            tasks.append({"task": "cases", "kind": k, "examples": n, "salt": r})
    tasks.append({"task": "cases", "kind": "files", "examples": w["files"], "salt": 9})
    tasks.append({"task": "cases", "kind": "mix", "examples": w["mix"], "salt": 8})
    tasks.append({"task": "relpath", "examples": rel})
    tasks.append({"task": "scripts", "examples": scr})
    return tasks


def run_task(ctx, task, **kw):
    try:
        _run_task(ctx, task, **kw)
    finally:
        cleanup_fast()


def _run_task(ctx, task, **kw):
    if task == "cases":
        core.hyp_run(ctx, STRATS[kw["kind"]](), lambda c: ctx.out_of_time() or run_case(ctx, c), kw["examples"], chunk=200,
                     seed_salt=kw.get("salt", 0))
    elif task == "relpath":
        relpath_pairs(ctx, kw["examples"])
    elif task == "scripts":
        script_cases(ctx, kw["examples"])
    else:
        raise core.HarnessError(f"unknown task {task}")


def replay(ctx, case):
    if "target" in case and "link" in case and "helper" not in case:
        tgt, l2 = case["target"], case["link"]
        linkdir = pp.dirname("/" + l2.lstrip("/"))
        want = M.lexical_relpath(tgt, linkdir)
        ctx.case(case, nontrivial=True, classes=["relpath"])
        got = core.guarded(ctx, case, lambda: get_relative_dosym_target(tgt, l2))
        if core.crashed(got):
            return
        if got.startswith("/"):
            ctx.violation("relpath:absolute", case, f"{got!r}")
        elif _lex_norm(pp.join(_lex_norm(linkdir), got)) != _lex_norm(tgt):
            ctx.violation("relpath:resolves-elsewhere", case, f"{got!r}")
        elif got != want:
            ctx.violation("relpath:not-pms-algorithm", case, f"{got!r} vs {want!r}")
        return
    if "src" not in case and "args" not in case:
        # script-options case
        _replay_script(ctx, case)
        return
    try:
        run_case(ctx, dict(case))
    finally:
        cleanup_fast()


def _replay_script(ctx, case):
    check_scripts(ctx, [case])
