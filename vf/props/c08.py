"""C08 Repository queries return exactly the matching packages.

Generated (hypothesis, JSON cases): 1-3 in-memory `SimpleTree` repositories (1-4 categories out of 4, 1-3
packages out of 4, 1-3 versions out of 4, insertion order random) whose packages are `VersionedCPV`
subclass instances that also carry `slot` and `repo.repo_id`; a restriction tree from vf/gen/restrictions.py
biased towards category/package leaves: atoms, CategoryDep/PackageDep, PackageRestriction(category|package,
exact|glob|regex|value-level And/Or/JustOne/AtMostOne), negation on the value, on the PackageRestriction
wrapper, on boolean nodes and through `restriction.Negate`, And/Or (few JustOne/AtMostOne) combinations
mixing cat-constrained, pkg-constrained and unconstrained (version/slot/repo/AlwaysBool) leaves -- 40% of
the cases come from a clause-structured generator (Or of And-clauses with a chosen category/package/
unconstrained shape per clause) so that every branch of `_identify_candidates` is exercised (classes
`branch:*`); a second restriction used as filter.

Oracle = brute force over *all* packages of the repository (built from the same dict, no pruning) with
`restrict.match` (match itself is checked by C06/C04):
  base        multiset(repo.itermatch(r)) == multiset(brute force); repo.match / has_match agree
  sorted      sorter=sorted / reversed-sorted: same multiset, sequence ordered by (category, package,
              PMS version reference)
  unversioned (restrictions reading only category/package): with raw_pkg_cls=UnversionedCPV and with the
              default raw class: exactly the (cat, pkg) pairs having >=1 version for which the restriction
              matches the unversioned package (brute force with UnversionedCPV)
  multiplex   multiplex.tree(*repos): multiset union of the per-repository brute-force answers; sorted too
  filtered    filtered.tree(repo, f, sentinel): brute force with the filter; misc.restrict_repo,
              misc.caching_repo (asked twice)
A base failure is minimised on the spot (greedy structural shrinking of the restriction against the one
repository) and bucketed by what the *minimal* restriction contains, e.g.
`missing:wrapper-negated-leaf`, `missing:inside-negated-or-xor-node`, `missing:value-bool`;
derived queries are only judged when the base query of every repository is right.

Dropped from DESIGN: per-branch classes are taken from pkgcore's own DNF of the restriction (coverage
counters only, never the verdict). pkg_filter / force / yield_none arguments are not exercised.
"""
import functools
from collections import Counter
from types import SimpleNamespace

from .. import core
from ..gen import restrictions as G
from ..ref import pms_version as R

ID = "C08"
TITLE = "Repository queries return exactly the matching packages"
LEVEL = "exploration"
TECHNIQUE = "random in-memory repositories x random restriction trees; differential vs. brute-force filter of all packages (multiset + order)"
DESIGN_REF = "DESIGN.md §3 C08"
LEVEL_TEXT = (
    "Generated-input search: hypothesis-built repository stacks and restriction trees; every query form "
    "(itermatch/match/has_match, sorted, unversioned, multiplex, filtered, restrict/caching wrappers) is compared "
    "with a brute-force filter over all packages of the repositories."
)
LEVEL_NOTE = (
    "Trusted: restrict.match on a single package (C04/C06 check it), the harness' enumeration of the repository "
    "dict, PMS version reference for ordering. No proof of absence beyond the generated cases."
)
RULE = (
    "hypothesis cases: 1-3 SimpleTree repos x restriction (35% random trees over <=4 distinct leaves biased to "
    "category/package, 25% category/package-only trees, 40% clause-structured Or-of-And mixes of category / package / "
    "unconstrained leaves aimed at each _identify_candidates branch); non-trivial = restriction is not a bare atom, constrains category or package and has >=1 negation "
    "or an Or/JustOne/AtMostOne node; distinct = canonical JSON of (repos, restriction)"
)
ASSUMPTIONS = [
    "restrict.match(pkg) is the definition of 'matches' (brute force applies it to every package)",
    "an unversioned (cat, pkg) pair matches iff the restriction matches UnversionedCPV(cat, pkg)",
    "sorter order for sorted/reverse-sorted = (category, package, PMS version order)",
]
BUDGET = {"quick": 35, "thorough": 900}

CATS = ["app-a", "app-b", "dev-a", "dev-util"]
PKGS = ["foo", "fooBar", "bar", "Baz"]
VERS = ["1", "1-r1", "2", "10"]
REPO_IDS = ["r1", "r2", "r3"]
W = {"category": 6, "package": 6, "fullver": 2, "slot": 1, "repo.repo_id": 1, "@atom": 4, "@always": 1}
ATTRS = ("category", "package", "fullver", "slot", "repo.repo_id")
PROFILE = G.Profile(CATS, PKGS, VERS, ("0", "1"), (), REPO_IDS[:2], attrs=ATTRS, weights=W, atom_extras=True)
# restrictions that read category/package only (unversioned queries)
PROFILE_CP = G.Profile(CATS, PKGS, VERS, attrs=("category", "package"), weights={"@atom": 3, "@always": 1})


def slot_of(ver):
    return "0" if ver.startswith("1") else "1"


_cls_cache = {}


def pkg_class():
    c = _cls_cache.get("c")
    if c is None:
        from pkgcore.ebuild import cpv

        class RPkg(cpv.VersionedCPV):
            __slots__ = ("slot", "subslot", "repo", "use", "iuse", "iuse_stripped")

        c = _cls_cache["c"] = RPkg
    return c


def build_repo(rspec):
    from pkgcore.repository.util import SimpleTree

    d = {}
    for cat, pkgs in rspec["tree"]:
        d[cat] = {p: list(vs) for p, vs in pkgs}
    repo = SimpleTree(d, repo_id=rspec["id"])
    kls = pkg_class()
    sf = object.__setattr__

    def mk(cat, pkg, ver):
        p = kls(cat, pkg, ver)
        sf(p, "slot", slot_of(ver))
        sf(p, "subslot", slot_of(ver))
        sf(p, "repo", repo)
        sf(p, "use", frozenset())
        sf(p, "iuse", frozenset())
        sf(p, "iuse_stripped", frozenset())
        return p

    repo.package_class = mk
    allp = [mk(c, p, v) for c, pkgs in rspec["tree"] for p, vs in pkgs for v in vs]
    return repo, allp


def pkey(p):
    return (getattr(getattr(p, "repo", None), "repo_id", None), p.cpvstr)


def refcmp(a, b):
    ka, kb = (a.category, a.package), (b.category, b.package)
    if ka != kb:
        return -1 if ka < kb else 1
    va, ra = R.split_fullver(a.fullver)
    vb, rb = R.split_fullver(b.fullver)
    return R.vcmp(va, ra, vb, rb)


def diff_kind(got_keys, exp_keys):
    g, e = Counter(got_keys), Counter(exp_keys)
    if g == e:
        return None
    if any(g[k] > 1 and e[k] <= 1 for k in g):
        return "duplicate"
    if e - g:
        return "missing"
    return "extra"


def _diff_msg(got_keys, exp_keys):
    g, e = Counter(got_keys), Counter(exp_keys)
    return f"missing={sorted((e - g).elements())[:6]} extra={sorted((g - e).elements())[:6]}"


# ---- restriction shape -----------------------------------------------------------------------

def _constrains_cp(n):
    k = n["k"]
    if k == "pr":
        return n["attr"] in ("category", "package")
    if k == "dep":
        return n["cls"] in ("CategoryDep", "PackageDep")
    return k == "atom"


def risk_features(spec):
    """what a restriction contains that the candidate pruning has to get right (bucket suffix)"""
    f = set()
    if spec["k"] == "not":
        f.add("negate-wrapper-top")
    for n, _d, parents in G.walk(spec):
        if n["k"] == "exact" and n.get("cs") is False and any(
                p["k"] == "pr" and p["attr"] in ("category", "package") for p in parents) and not any(
                p["k"] == "not" for p in parents):
            f.add("case-insensitive-exact")
        if not _constrains_cp(n):
            continue
        # anything below a Negate wrapper is opaque to the candidate pruning
        if any(p["k"] == "not" for p in parents):
            continue
        if n["k"] == "pr":
            if n.get("neg"):
                f.add("wrapper-negated-leaf")
            v = n["v"]
            if v["k"] in G.BOOL_KINDS or v["k"] in ("not", "always"):
                f.add("value-bool")
        if any((p["k"] in ("one", "most") or (p["k"] in ("and", "or") and p.get("neg"))) and p.get("nt") != "values"
               for p in parents):
            f.add("inside-negated-or-xor-node")
    return "+".join(sorted(f)) or "plain"


def classify(case, restrict_obj):
    spec = case["restrict"]
    cl = set()
    cons = any(_constrains_cp(n) for n, _d, _p in G.walk(spec))
    negs = G.count_negations(spec)
    multi = any(n["k"] in ("or", "one", "most") for n, _d, _p in G.walk(spec))
    if cons:
        cl.add("constrains_cat_or_pkg")
    rf = risk_features(spec)
    for x in rf.split("+"):
        cl.add("shape:" + x)
    if len(case["repos"]) > 1:
        cl.add("multiplex")
    nontrivial = spec["k"] != "atom" and cons and (negs >= 1 or multi)
    # which pruning branch (coverage only; uses pkgcore's own DNF)
    try:
        from pkgcore.ebuild.atom import atom
        from pkgcore.restrictions import boolean
        from pkgcore.restrictions.util import collect_package_restrictions as cpr

        if isinstance(restrict_obj, atom):
            cl.add("branch:atom")
        elif not isinstance(restrict_obj, boolean.base):
            cl.add("branch:nonbool-fast")
        else:
            ds = [(bool(list(cpr(x, ("category",)))), bool(list(cpr(x, ("package",)))))
                  for x in restrict_obj.iter_dnf_solutions(True)]
            if len(ds) >= 2:
                cl.add("dnf>=2")
            if any(not c and not p for c, p in ds):
                cl.add("branch:unconstrained-clause")
            else:
                cm = len({c for c, _ in ds}) > 1
                pm = len({p for _, p in ds}) > 1
                cl.add("branch:" + ("mixed-both" if cm and pm else "mixed-cat" if cm else "mixed-pkg" if pm else "uniform-fast"))
    except Exception:  # noqa: BLE001  (coverage label only; the verdict never depends on it)
        cl.add("branch:unknown")
    return sorted(cl), nontrivial


# ---- the check -------------------------------------------------------------------------------

def base_diff(repo, allp, r):
    got = list(repo.itermatch(r))
    exp = [p for p in allp if r.match(p)]
    return diff_kind([pkey(p) for p in got], [pkey(p) for p in exp]), got, exp


def minimise(rspec, spec, kind):
    """greedy structural shrink + simplification of the restriction keeping the same kind of base failure"""
    repo, allp = build_repo(rspec)
    cur = spec

    def cands(c):
        yield from G.variants(c)
        yield from G.simplifications(c)

    for _ in range(200):
        for v in cands(cur):
            if G.complexity(v) >= G.complexity(cur):
                continue
            try:
                r = G.Builder().build(v)
                k, _g, _e = base_diff(repo, allp, r)
            except Exception:  # noqa: BLE001  (ill-typed variant or a different failure: not a candidate)
                continue
            if k == kind:
                cur = v
                break
        else:
            break
    return cur


def check_case(ctx, case, record=True):
    from pkgcore.ebuild import cpv
    from pkgcore.repository import filtered, misc, multiplex

    spec = case["restrict"]
    built = [build_repo(rs) for rs in case["repos"]]
    b = G.Builder()
    r = b.build(spec)
    cl, nontrivial = classify(case, r)
    ncmp = [0]

    def one(rs):
        return {"repos": [rs], "restrict": spec}

    # --- base query, per repository
    base_ok = True
    for rs, (repo, allp) in zip(case["repos"], built):
        ncmp[0] += 1
        res = core.guarded(ctx, one(rs), lambda: base_diff(repo, allp, r))
        if core.crashed(res):
            base_ok = False
            continue
        kind, got, exp = res
        if kind:
            base_ok = False
            small = minimise(rs, spec, kind)
            r2 = G.Builder().build(small)
            repo2, allp2 = build_repo(rs)
            _k, g2, e2 = base_diff(repo2, allp2, r2)
            ctx.violation(f"{kind}:{risk_features(small)}", {"repos": [rs], "restrict": small},
                          f"itermatch {_diff_msg([pkey(p) for p in g2], [pkey(p) for p in e2])}")
            continue
        # match()/has_match agree with itermatch
        ncmp[0] += 1

        def extra(repo=repo, exp=exp):
            m = repo.match(r)
            if diff_kind([pkey(p) for p in m], [pkey(p) for p in exp]):
                ctx.violation("match-vs-itermatch", one(rs), "repo.match differs from brute force")
            if bool(repo.has_match(r)) != bool(exp):
                ctx.violation("has_match", one(rs), f"has_match={repo.has_match(r)} but {len(exp)} packages match")
            if (r in repo) != bool(exp):
                ctx.violation("contains", one(rs), f"`restrict in repo` wrong, {len(exp)} packages match")

        core.guarded(ctx, one(rs), extra)

    if base_ok:
        # --- sorted queries
        for rs, (repo, allp) in zip(case["repos"], built):
            exp = [p for p in allp if r.match(p)]
            for name, sorter, sign in (("sorted", sorted, 1), ("rsorted", functools.partial(sorted, reverse=True), -1)):
                ncmp[0] += 1

                def srt(repo=repo, exp=exp, sorter=sorter, sign=sign, name=name, rs=rs):
                    got = list(repo.itermatch(r, sorter=sorter))
                    k = diff_kind([pkey(p) for p in got], [pkey(p) for p in exp])
                    if k:
                        ctx.violation(f"sorted:{k}", one(rs), f"sorter={name} {_diff_msg([pkey(p) for p in got], [pkey(p) for p in exp])}")
                    elif any(refcmp(x, y) * sign > 0 for x, y in zip(got, got[1:])):
                        ctx.violation("sorted:order", one(rs), f"sorter={name} yields {[p.cpvstr for p in got]}")

                core.guarded(ctx, one(rs), srt)

        # --- unversioned queries (restrictions over category/package only)
        if G.attrs_of(spec) <= {"category", "package"}:
            cl.append("unversioned")
            for rs, (repo, allp) in zip(case["repos"], built):
                pairs = [(c, p) for c, pkgs in rs["tree"] for p, vs in pkgs if vs]
                exp = [cp for cp in pairs if r.match(cpv.UnversionedCPV(*cp))]
                ncmp[0] += 2

                def unv(repo=repo, exp=exp, rs=rs):
                    got = [(p.category, p.package) for p in repo.itermatch(r, versioned=False, raw_pkg_cls=cpv.UnversionedCPV)]
                    k = diff_kind(got, exp)
                    if k:
                        ctx.violation(f"unversioned-cpv:{k}", one(rs), _diff_msg(got, exp))
                        return
                    got = [tuple(x) for x in repo.itermatch(r, versioned=False)]
                    k = diff_kind(got, exp)
                    if k:
                        ctx.violation("unversioned-default:raw-pairs-unmatchable", one(rs),
                                      "itermatch(r, versioned=False) " + _diff_msg(got, exp))
                    got = [tuple(x) for x in repo.itermatch(r, versioned=False, sorter=sorted)]
                    if not k and got != sorted(exp):
                        ctx.violation("unversioned-default:sorted", one(rs), f"got {got} expected {sorted(exp)}")

                core.guarded(ctx, one(rs), unv)

        # --- multiplex
        if len(built) > 1:
            exp = [p for (_repo, allp) in built for p in allp if r.match(p)]
            ncmp[0] += 3

            def mux():
                mt = multiplex.tree(*[repo for repo, _ in built])
                got = list(mt.itermatch(r))
                k = diff_kind([pkey(p) for p in got], [pkey(p) for p in exp])
                if k:
                    ctx.violation(f"multiplex:{k}", case, _diff_msg([pkey(p) for p in got], [pkey(p) for p in exp]))
                    return
                for name, sorter, sign in (("sorted", sorted, 1), ("rsorted", functools.partial(sorted, reverse=True), -1)):
                    got = list(mt.itermatch(r, sorter=sorter))
                    k = diff_kind([pkey(p) for p in got], [pkey(p) for p in exp])
                    if k:
                        ctx.violation(f"multiplex-sorted:{k}", case, f"sorter={name} " + _diff_msg([pkey(p) for p in got], [pkey(p) for p in exp]))
                    elif any(refcmp(x, y) * sign > 0 for x, y in zip(got, got[1:])):
                        ctx.violation("multiplex-sorted:order", case, f"sorter={name} yields {[pkey(p) for p in got]}")

            core.guarded(ctx, case, mux)

        # --- filtered tree and misc wrappers (first repository)
        if case.get("filter") is not None:
            cl.append("filtered")
            rs = case["repos"][0]
            repo, allp = built[0]
            fcase = {"repos": [rs], "restrict": spec, "filter": case["filter"], "sentinel": case.get("sentinel", False)}
            ncmp[0] += 4

            def flt():
                f = G.Builder().build(case["filter"])
                sentinel = bool(case.get("sentinel", False))
                exp = [p for p in allp if r.match(p)]
                fexp = [p for p in exp if bool(f.match(p)) == sentinel]
                ft = filtered.tree(repo, f, sentinel_val=sentinel)
                got = list(ft.itermatch(r))
                k = diff_kind([pkey(p) for p in got], [pkey(p) for p in fexp])
                if k:
                    ctx.violation(f"filtered:{k}", fcase, _diff_msg([pkey(p) for p in got], [pkey(p) for p in fexp]))
                got = list(ft)
                allexp = [p for p in allp if bool(f.match(p)) == sentinel]
                if diff_kind([pkey(p) for p in got], [pkey(p) for p in allexp]):
                    ctx.violation("filtered:iter", fcase, _diff_msg([pkey(p) for p in got], [pkey(p) for p in allexp]))
                rr = misc.restrict_repo(f, repo)
                got = list(rr.itermatch(r))
                rexp = [p for p in exp if not f.match(p)]
                if diff_kind([pkey(p) for p in got], [pkey(p) for p in rexp]):
                    ctx.violation("restrict_repo", fcase, _diff_msg([pkey(p) for p in got], [pkey(p) for p in rexp]))
                cr = misc.caching_repo(repo, sorted)
                for _ in range(2):
                    got = list(cr.match(r))
                    if diff_kind([pkey(p) for p in got], [pkey(p) for p in exp]) or any(
                            refcmp(x, y) > 0 for x, y in zip(got, got[1:])):
                        ctx.violation("caching_repo", fcase, f"got {[p.cpvstr for p in got]}")
                        break

            core.guarded(ctx, fcase, flt)

    if record:
        ctx.case(case, nontrivial=nontrivial, classes=cl,
                 key=core.jdump([case["repos"], case["restrict"]]), n=max(ncmp[0], 1))


# ---- generation ------------------------------------------------------------------------------

def _subset(draw, seq, lo, hi):
    n = G._int(draw, lo, min(hi, len(seq)))
    pool = list(seq)
    out = []
    for _ in range(n):
        out.append(pool.pop(G._int(draw, 0, len(pool) - 1)))
    return out


def draw_repo(draw, rid):
    tree = []
    for c in _subset(draw, CATS, 1, 4):
        pkgs = []
        for p in _subset(draw, PKGS, 1, 3):
            pkgs.append([p, _subset(draw, VERS, 1, 3)])
        tree.append([c, pkgs])
    return {"id": rid, "tree": tree}


PROF_CAT = G.Profile(CATS, PKGS, VERS, attrs=("category",), weights={"@always": 0}, atoms=False)
PROF_PKG = G.Profile(CATS, PKGS, VERS, attrs=("package",), weights={"@always": 0}, atoms=False)
PROF_FREE = G.Profile(CATS, PKGS, VERS, ("0", "1"), (), REPO_IDS[:2], attrs=("fullver", "slot", "repo.repo_id"),
                      weights={"fullver": 3, "@always": 1}, atoms=False)


def _simple_leaf(draw, attr):
    """category/package leaf, half of the time a plain positive exact match (the pruning shortcuts)"""
    pool = CATS if attr == "category" else PKGS
    r = G._int(draw, 0, 9)
    if r < 3:
        return {"k": "dep", "cls": "CategoryDep" if attr == "category" else "PackageDep", "s": G._pick(draw, pool), "neg": False}
    if r < 5:
        return {"k": "pr", "attr": attr, "neg": False, "v": {"k": "exact", "s": G._pick(draw, pool), "cs": True, "neg": False}}
    return G.pkg_leaf(draw, PROF_CAT if attr == "category" else PROF_PKG)


def draw_structured(draw):
    """Or of 1-3 clauses, each an And over a chosen mix of category / package / unconstrained leaves, so that the
    DNF shapes `_identify_candidates` distinguishes (uniform, mixed-cat, mixed-pkg, mixed-both, unconstrained) all occur"""
    shapes = ["c", "p", "cp", "cp", "c", "p", "cc", "pp", "n"]
    clauses = []
    for _ in range(G._pick(draw, [1, 2, 2, 2, 3, 3])):
        shape = G._pick(draw, shapes)
        members = []
        for ch in shape:
            if ch == "c":
                members.append(_simple_leaf(draw, "category"))
            elif ch == "p":
                members.append(_simple_leaf(draw, "package"))
            else:
                members.append(G.pkg_leaf(draw, PROF_FREE))
        if shape != "n" and G._int(draw, 0, 5) == 0:
            if G._boold(draw):
                members.append(G.pkg_leaf(draw, PROF_FREE))
            else:
                a = G.pkg_leaf(draw, PROFILE_CP)
                members.append(a)
        if len(members) == 1 and G._boold(draw):
            clauses.append(members[0])
        else:
            kind = "and" if G._int(draw, 0, 5) else "or"
            clauses.append({"k": kind, "neg": G._int(draw, 0, 9) == 0, "nt": G._pick(draw, ["package", None]), "c": members})
    if len(clauses) == 1 and G._boold(draw):
        root = clauses[0]
    else:
        root = {"k": "or" if G._int(draw, 0, 5) else "and", "neg": G._int(draw, 0, 9) == 0,
                "nt": G._pick(draw, ["package", None]), "c": clauses}
    if G._int(draw, 0, 4) == 0:
        # a common conjunct multiplies into every clause
        extra = _simple_leaf(draw, G._pick(draw, ["category", "package"])) if G._boold(draw) else G.pkg_leaf(draw, PROF_FREE)
        root = {"k": "and", "neg": False, "nt": None, "c": [root, extra]}
    return root


def cases(profile=PROFILE, structured=False, **treekw):
    from hypothesis import strategies as st

    kw = dict(max_depth=3, max_leaves=6, max_distinct=4, empty_rate=40, top_bool=True,
              kinds=("and", "or", "and", "or", "and", "or", "and", "or", "one", "most"))
    kw.update(treekw)

    @st.composite
    def _s(draw):
        n = G._pick(draw, [1, 1, 2, 2, 3])
        repos = [draw_repo(draw, REPO_IDS[i]) for i in range(n)]
        if structured:
            restrict = draw_structured(draw)
        else:
            restrict = G.draw_tree(draw, profile, **dict(kw, top_bool=G._int(draw, 0, 9) != 0))
        case = {"repos": repos, "restrict": restrict}
        if G._int(draw, 0, 2) == 0:
            case["filter"] = G.draw_tree(draw, profile, max_depth=2, max_leaves=3, max_distinct=2, empty_rate=1000)
            case["sentinel"] = G._boold(draw)
        return case

    return _s()


def plan(tier, seed):
    if tier == "quick":
        return [{"task": "queries", "examples": 900} for _ in range(16)]
    return [{"task": "queries", "examples": 16000} for _ in range(32)]


def run_task(ctx, task, **kw):
    if task != "queries":
        raise core.HarnessError(f"unknown task {task}")
    n = kw["examples"]
    # three generators, interleaved in rounds so that a budget stop does not starve one of them:
    # random trees / category+package-only trees (also run as unversioned queries) / clause-structured
    gens = [(cases(), 0.35), (cases(PROFILE_CP), 0.25), (cases(structured=True), 0.40)]
    rounds = max(1, n // 300)
    for rnd in range(rounds):
        for gi, (strat, share) in enumerate(gens):
            if ctx.out_of_time():
                return
            k = max(1, int(n * share / rounds))
            core.hyp_run(ctx, strat, lambda c: check_case(ctx, c), k, chunk=60, seed_salt=rnd * 3 + gi)


def replay(ctx, case):
    check_case(ctx, case)


def shrink_case(ctx, bucket, case):
    """drop repositories / categories / packages / versions while the bucket persists"""
    cur = case

    def still(c):
        c2 = core.Ctx(ID, ctx.tier, ctx.seed)
        try:
            check_case(c2, c, record=False)
        except Exception:  # noqa: BLE001
            return False
        return bucket in c2.violations

    def repo_variants(c):
        rs = c["repos"]
        if len(rs) > 1:
            for i in range(len(rs)):
                yield dict(c, repos=rs[:i] + rs[i + 1:])
        for i, rp in enumerate(rs):
            t = rp["tree"]
            for j in range(len(t)):
                if len(t) > 1:
                    yield dict(c, repos=rs[:i] + [dict(rp, tree=t[:j] + t[j + 1:])] + rs[i + 1:])
                cat, pkgs = t[j]
                for k in range(len(pkgs)):
                    if len(pkgs) > 1:
                        nt = t[:j] + [[cat, pkgs[:k] + pkgs[k + 1:]]] + t[j + 1:]
                        yield dict(c, repos=rs[:i] + [dict(rp, tree=nt)] + rs[i + 1:])
                    p, vs = pkgs[k]
                    for m in range(len(vs)):
                        if len(vs) > 1:
                            np_ = pkgs[:k] + [[p, vs[:m] + vs[m + 1:]]] + pkgs[k + 1:]
                            nt = t[:j] + [[cat, np_]] + t[j + 1:]
                            yield dict(c, repos=rs[:i] + [dict(rp, tree=nt)] + rs[i + 1:])
        for v in G.variants(c["restrict"]):
            if G.size(v) < G.size(c["restrict"]):
                yield dict(c, restrict=v)
        if c.get("filter") is not None:
            for v in G.variants(c["filter"]):
                if G.size(v) < G.size(c["filter"]):
                    yield dict(c, filter=v)

    for _ in range(200):
        for v in repo_variants(cur):
            if still(v):
                cur = v
                break
        else:
            break
    return cur
