"""C45 Security advisories flag exactly the vulnerable installed versions.

Generated: GLSA XML documents (one <package> entry per file, written with the layout of pkgcore.test.misc.mk_glsa but
with a slot attribute per range and an arch list per entry) and installed packages (FakePkg with version, slot,
keywords).  Families:
  single      every range (lt le eq ge gt rlt rle rge rgt + eq-glob) x version pool x slot attribute {none,0,1} as the
              only vulnerable range, and the same ranges as the only unaffected range next to `ge 0`; x package pool
              (exhaustive in both tiers)
  arch        arch attribute variants x package keyword sets
  hyp         random entries: 1-3 vulnerable + 0-2 unaffected ranges, slots, arches, versions mutated from the installed
              ones; several entries for the same package (grouped view)
Observed: restriction.match(pkg) for every restriction yielded by iter(GlsaDirSet(dir)); for hyp additionally
pkg_grouped_iter() (entries of one package or-ed) and find_vulnerable_repo_pkgs(grouped=True) over a FakeRepo.

Oracle: `affected(entry, pkg)` below, a direct evaluator of the GLSA format as the C45 statement gives it: name equal,
(no arches or `*` or pkg carries one), some vulnerable range holds, no unaffected range holds; a range holds when its
slot attribute (if any) equals the package slot and the operator holds -- lt/le/eq/ge/gt on full versions
(vf.ref.pms_version), r-forms additionally require the same version ignoring the revision, `eq V*` is the component
prefix rule (glob_holds).  On a disagreement every range is re-asked alone through
GlsaDirSet.generate_restrict_from_range to name the range kind that is wrong (bucket key).

  bystanders  advisories with several <package> entries in document order where some entries are unusable (each kind
              pkgcore documents: rlt without revision, glob on a non-eq range, unknown operator, malformed version, empty
              element; in a vulnerable or an unaffected range) at every position: the well-formed entries must still be
              yielded and flag exactly their packages (class wellformed_entry_after_unusable_entry); also via hypothesis
Unusable entries are only bystanders: nothing is asserted about what they flag.  Not generated: slot="*", `~arch`
keywords for an arch the entry names.
"""
import itertools
import os

from hypothesis import strategies as st

from .. import core
from ..gen import versions as V
from ..ref import atom_match as M
from ..ref import pms_version as R
from . import c04 as A

ID = "C45"
TITLE = "Security advisories flag exactly the vulnerable installed versions"
LEVEL = "exploration"
TECHNIQUE = "differential vs. reference evaluator of the GLSA range format; bounded-exhaustive single ranges + hypothesis advisories"
DESIGN_REF = "DESIGN.md §3 C45"
LEVEL_TEXT = (
    "Generated-input search: every single vulnerable / unaffected range over an operator x version x slot universe "
    "against a package pool (exhaustive), arch variants, and random multi-range advisories against random installed "
    "sets; GlsaDirSet restrictions, the grouped view and find_vulnerable_repo_pkgs compared with a reference evaluator."
)
LEVEL_NOTE = "Trusted: the reference evaluator in this module, vf/ref/pms_version.py, FakePkg/FakeRepo as package/repo model."
RULE = (
    "(advisory entry, installed package) pairs; non-trivial = same package name and the entry has an r-range, a glob, "
    "a slot attribute, an unaffected range or an arch list; distinct = distinct (entry description, package description)"
)
ASSUMPTIONS = [
    "the reference evaluator reads the GLSA format as the C45 statement describes it",
    "`eq V*` follows vf.ref.pms_version.glob_holds (component boundary rule)",
    "entries that pkgcore documents as invalid (rlt without revision, unknown operators) are not generated",
]
BUDGET = {"quick": 50, "thorough": 900}

OPS = ("lt", "le", "eq", "ge", "gt", "rlt", "rle", "rge", "rgt")
_CMP = {"lt": "<", "le": "<=", "eq": "=", "ge": ">=", "gt": ">"}

TEMPLATE = """<?xml version="1.0" encoding="UTF-8"?>
<!DOCTYPE glsa SYSTEM "https://www.gentoo.org/dtd/glsa.dtd">
<glsa id="{id}">
  <title>generated</title>
  <synopsis>s</synopsis>
  <product type="ebuild">p</product>
  <announced>2003-11-23</announced>
  <revised>2003-11-23: 01</revised>
  <access>remote</access>
  <affected>
{packages}
  </affected>
  <background><p>b</p></background>
  <description><p>d</p></description>
  <impact type="normal"><p>i</p></impact>
  <workaround><p>w</p></workaround>
  <resolution><p>r</p></resolution>
  <references/>
</glsa>
"""


# ---- the model --------------------------------------------------------------------------------

def mkrange(op, ver, rev=None, glob=False, slot=None):
    return {"op": op, "ver": ver, "rev": rev, "glob": bool(glob), "slot": slot}


def mkentry(name="a/x", arch=None, vulnerable=(), unaffected=()):
    return {"name": name, "arch": arch, "vulnerable": list(vulnerable), "unaffected": list(unaffected)}


def range_xml(tag, r):
    slot = f' slot="{r["slot"]}"' if r.get("slot") is not None else ""
    # "text" overrides the element text (unusable entries: malformed version, empty element)
    text = r["text"] if "text" in r else M.fullver(r["ver"], r.get("rev")) + ("*" if r.get("glob") else "")
    return f'      <{tag} range="{r["op"]}"{slot}>{text}</{tag}>'


def entry_xml(e):
    arch = f' arch="{e["arch"]}"' if e.get("arch") is not None else ""
    lines = [f'    <package name="{e["name"]}" auto="yes"{arch}>']
    lines += [range_xml("unaffected", r) for r in e["unaffected"]]
    lines += [range_xml("vulnerable", r) for r in e["vulnerable"]]
    lines.append("    </package>")
    return "\n".join(lines)


def range_text(tag, r):
    if "text" in r:
        return f"{tag[0]}:{r['op']} {r['text']!r}"
    return f"{tag[0]}:{r['op']} {M.fullver(r['ver'], r.get('rev'))}{'*' if r.get('glob') else ''}" + (
        f" slot={r['slot']}" if r.get("slot") is not None else "")


def entry_text(e):
    return (f"{e['name']} arch={e.get('arch')} " + "; ".join(
        [range_text("vulnerable", r) for r in e["vulnerable"]] + [range_text("unaffected", r) for r in e["unaffected"]]))


def mkpkg(name="a/x", ver="1", rev=None, slot="0", keywords=("x86",)):
    return {"name": name, "ver": ver, "rev": rev, "slot": slot, "keywords": sorted(keywords)}


def pkg_text(p):
    return f"{p['name']}-{M.fullver(p['ver'], p.get('rev'))}:{p['slot']} kw={','.join(p['keywords'])}"


# ---- reference evaluator of the GLSA format ---------------------------------------------------

def range_holds(r, p):
    if r.get("slot") is not None and r["slot"] != p["slot"]:
        return False
    op = r["op"]
    if r.get("glob"):
        return R.glob_holds(M.fullver(p["ver"], p.get("rev")), M.fullver(r["ver"], r.get("rev")))
    if op.startswith("r"):
        if R.vcmp(p["ver"], None, r["ver"], None, ignore_rev=True) != 0:
            return False
        op = op[1:]
    return R.op_holds(_CMP[op], p["ver"], p.get("rev"), r["ver"], r.get("rev"))


def arch_ok(e, keywords):
    arch = e.get("arch")
    if arch is None:
        return True
    arches = arch.split()
    if not arches or "*" in arches:
        return True
    return bool(set(arches) & set(keywords))


def affected(e, p, keywords=None):
    if e["name"] != p["name"]:
        return False
    if not arch_ok(e, p["keywords"] if keywords is None else keywords):
        return False
    if not any(range_holds(r, p) for r in e["vulnerable"]):
        return False
    return not any(range_holds(r, p) for r in e["unaffected"])


# ---- driving pkgcore ----------------------------------------------------------------------------

class Objs:
    def __init__(self):
        A._imports()
        from pkgcore.pkgsets import glsa
        from pkgcore.test import misc

        self.glsa, self.misc = glsa, misc
        self._pk = {}

    def pkg(self, p):
        k = pkg_text(p)
        o = self._pk.get(k)
        if o is None:
            o = self._pk[k] = self.misc.FakePkg(
                f"{p['name']}-{M.fullver(p['ver'], p.get('rev'))}", eapi="8", slot=p["slot"], keywords=p["keywords"])
        return o

    def load(self, ctx, entries):
        """write one GLSA file per entry, return {index: restriction} for the entries pkgcore yields"""
        d = ctx.fresh_dir("glsa")
        for i, e in enumerate(entries):
            gid = f"2000{i // 100:02d}-{i % 100:02d}"
            with open(os.path.join(d, f"glsa-{gid}.xml"), "w") as f:
                f.write(TEMPLATE.format(id=gid, packages=entry_xml(e)))
        src = self.glsa.GlsaDirSet(d)
        out = {}
        # iter(src) wraps what iter_vulnerabilities() yields, in the same order; equal restrictions of different
        # advisories may be one cached instance, so identify them by position, not by their tag
        ids = [x[0] for x in src.iter_vulnerabilities()]
        rs = list(src)
        if len(ids) != len(rs):
            raise core.HarnessError("iter(GlsaDirSet) and iter_vulnerabilities() disagree in length")
        for gid, restrict in zip(ids, rs):
            a, b = gid.split("-")
            out[(int(a) - 200000) * 100 + int(b)] = restrict
        return src, out, d


def classify(e, p):
    cl = []
    for tag in ("vulnerable", "unaffected"):
        for r in e[tag]:
            k = r["op"] + ("-glob" if r.get("glob") else "")
            cl.append(f"{tag[0]}:{k}")
            if r["op"].startswith("r") and not R.rev_int(r.get("rev")):
                cl.append("r-form-without-revision")
            if r.get("slot") is not None:
                cl.append(f"{tag[0]}:slot")
            if r.get("glob") and e["name"] == p["name"]:
                cl.append("glob:" + A.glob_kind({"ver": r["ver"], "rev": r.get("rev")}, p))
    if e.get("arch") not in (None, "*"):
        cl.append("arch")
    if len(e["vulnerable"]) > 1:
        cl.append("multi-vulnerable")
    return cl


def nontrivial(e, p):
    if e["name"] != p["name"]:
        return False
    rs = e["vulnerable"] + e["unaffected"]
    return bool(e["unaffected"] or e.get("arch") not in (None, "*")
                or any(r["op"].startswith("r") or r.get("glob") or r.get("slot") is not None for r in rs))


def range_cause(objs, tag, r, p, got, exp):
    """root-cause name for a single range whose restriction disagrees with the reference"""
    d = "false-positive" if got and not exp else "false-negative"
    wrong_slot = r.get("slot") is not None and r["slot"] != p["slot"]
    if r.get("glob"):
        plain = dict(r, slot=None)
        holds = range_holds(plain, p)
        textual = M.fullver(p["ver"], p.get("rev")).startswith(M.fullver(r["ver"], r.get("rev")))
        if tag == "unaffected" and got == textual:
            return "glob:unaffected-not-negated"
        if wrong_slot and got == (textual if tag == "vulnerable" else not textual):
            return "glob:slot-ignored"
        if textual and not holds:
            return "glob:component-boundary:" + A.glob_kind({"ver": r["ver"], "rev": r.get("rev")}, p)
        return f"glob:{tag}:{d}"
    if r["op"] in ("rle", "rge") and not R.rev_int(r.get("rev")) and wrong_slot:
        return f"{r['op']}-without-revision:slot-ignored"
    return f"range:{tag}:{r['op']}{':slot' if r.get('slot') is not None else ''}:{d}"


def bucket_for(objs, e, p, got, exp):
    from lxml import etree

    g = objs.glsa.GlsaDirSet("/nonexistent")
    po = objs.pkg(p)
    for tag in ("vulnerable", "unaffected"):
        for r in e[tag]:
            node = etree.fromstring(range_xml(tag, r).strip())
            neg = tag == "unaffected"
            try:
                rr = g.generate_restrict_from_range(node, negate=True) if neg else g.generate_restrict_from_range(node)
            except ValueError:
                return f"entry-rejected:{tag}:{r['op']}"
            rgot = bool(rr.match(po))
            rexp = range_holds(r, p) != neg
            if rgot != rexp:
                return range_cause(objs, tag, r, p, rgot, rexp)
    if e.get("arch") not in (None, "*"):
        return "arch:" + ("false-positive" if got else "false-negative")
    return "combination:" + ("false-positive" if got else "false-negative")


def check_entries(ctx, objs, entries, pkgs, extra=(), full=False):
    """entries x pkgs through iter(GlsaDirSet); full=True also checks the grouped view and the repo scan"""
    src, got, d = core.guarded(ctx, {"entries": [entry_text(e) for e in entries[:3]]}, lambda: objs.load(ctx, entries)) or (None, None, None)
    if src is None:
        return
    dirty = set()  # (entry index, package index) already reported at entry level
    for i, e in enumerate(entries):
        restrict = got.get(i)
        for j, p in enumerate(pkgs):
            case = {"entry": e, "pkg": p}
            exp = affected(e, p)
            ctx.case(case, nontrivial=nontrivial(e, p), classes=classify(e, p) + list(extra) + ["expect:" + ("affected" if exp else "clean")],
                     key=entry_text(e) + " | " + pkg_text(p))
            if restrict is None:
                if any(range_holds(r, p) for r in e["vulnerable"]) and e["name"] == p["name"]:
                    ctx.violation("entry-dropped", case, f"GlsaDirSet yields nothing for [{entry_text(e)}]")
                    dirty.add((i, j))
                continue

            def body(restrict=restrict, e=e, p=p, case=case, exp=exp, i=i, j=j):
                g = bool(restrict.match(objs.pkg(p)))
                if g != exp:
                    dirty.add((i, j))
                    ctx.violation(bucket_for(objs, e, p, g, exp), case,
                                  f"[{entry_text(e)}] vs {pkg_text(p)}: restriction.match={g}, GLSA reference={exp}")

            if core.crashed(core.guarded(ctx, case, body)):
                dirty.add((i, j))
    if full:
        check_grouped(ctx, objs, src, entries, pkgs, dirty)
    import shutil

    shutil.rmtree(d, ignore_errors=True)


def check_grouped(ctx, objs, src, entries, pkgs, dirty=frozenset()):
    """the derived views; (entry, package) pairs that are already wrong at entry level (`dirty`) are not re-reported"""
    case0 = {"entries": entries, "pkgs": pkgs}
    names = sorted({e["name"] for e in entries})

    def body():
        grouped = {r.key: r for r in src.pkg_grouped_iter(sorter=sorted)}
        for name in names:
            mine = [(i, e) for i, e in enumerate(entries) if e["name"] == name]
            r = grouped.get(name)
            for j, p in enumerate(pkgs):
                exp = any(affected(e, p) for _, e in mine)
                ctx.case({"grouped": name, "pkg": p}, nontrivial=len(mine) > 1 and p["name"] == name, classes=["grouped"],
                         key="G|" + "|".join(entry_text(e) for _, e in mine) + "|" + pkg_text(p))
                g = bool(r.match(objs.pkg(p))) if r is not None else False
                if g != exp and not any((i, j) in dirty for i, _ in mine):
                    ctx.violation("grouped:" + ("false-positive" if g else "false-negative"), dict(case0, pkg=p),
                                  f"pkg_grouped_iter()[{name}].match({pkg_text(p)})={g}, reference (any entry)={exp}")
        # repository scan: every yielded (restriction, matches) pair lists exactly the affected packages
        repo = objs.misc.FakeRepo(pkgs=[objs.pkg(p) for p in pkgs], repo_id="vdb")
        seen = {}
        for restrict, matches in objs.glsa.find_vulnerable_repo_pkgs(src, repo, grouped=True):
            seen[restrict.key] = sorted(pkg_text_of(m) for m in matches)
        for name in names:
            mine = [(i, e) for i, e in enumerate(entries) if e["name"] == name]
            want = sorted(
                f"{p['name']}-{M.fullver(p['ver'], p.get('rev'))}:{p['slot']}" for p in pkgs
                if any(affected(e, p) for _, e in mine))
            ctx.case({"scan": name}, nontrivial=bool(want), classes=["repo-scan"],
                     key="S|" + "|".join(entry_text(e) for _, e in mine) + "|" + "|".join(pkg_text(p) for p in pkgs))
            have = seen.get(name, [])
            if have != want and not any(i2 == i for (i2, _) in dirty for i, _ in mine):
                ctx.violation("repo-scan", dict(case0, name=name),
                              f"find_vulnerable_repo_pkgs(grouped=True) lists {have} for {name}, reference {want}")

    core.guarded(ctx, case0, body)


def pkg_text_of(m):
    return f"{m.key}-{m.fullver}:{m.slot}"


# ---- advisories with several <package> entries, some of them unusable ---------------------------

# every kind of <package> entry pkgcore documents as unusable (it logs a warning and skips that entry)
UNUSABLE = {
    "rlt-without-revision": lambda: mkrange("rlt", "2"),
    "glob-on-non-eq": lambda: mkrange("ge", "1", glob=True),
    "unknown-operator": lambda: mkrange("xx", "1"),
    "bad-version": lambda: dict(mkrange("eq", "1"), text="1..2"),
    "empty-version": lambda: dict(mkrange("lt", "1"), text=""),
}


def unusable_entry(kind, name="a/u", where="vulnerable"):
    bad = UNUSABLE[kind]()
    if where == "vulnerable":
        e = mkentry(name=name, vulnerable=[mkrange("lt", "9"), bad])
    else:
        e = mkentry(name=name, vulnerable=[mkrange("lt", "9")], unaffected=[bad])
    e["unusable"] = kind
    return e


def files_xml(entries):
    return "\n".join(entry_xml(e) for e in entries)


def check_files(ctx, objs, files, pkgs, extra=()):
    """files = list of advisories, each a list of <package> entries in document order; entries marked "unusable" are
    bystanders.  Every well-formed entry must be yielded and flag exactly its vulnerable packages wherever it stands."""
    case0 = {"files": files, "pkgs": pkgs}

    def load():
        d = ctx.fresh_dir("glsa")
        for i, entries in enumerate(files):
            gid = f"2000{i // 100:02d}-{i % 100:02d}"
            with open(os.path.join(d, f"glsa-{gid}.xml"), "w") as f:
                f.write(TEMPLATE.format(id=gid, packages=files_xml(entries)))
        src = objs.glsa.GlsaDirSet(d)
        ids = [(x[0], x[1]) for x in src.iter_vulnerabilities()]
        rs = list(src)
        if len(ids) != len(rs):
            raise core.HarnessError("iter(GlsaDirSet) and iter_vulnerabilities() disagree in length")
        return d, ids, rs

    got = core.guarded(ctx, case0, load)
    if core.crashed(got):
        return
    d, ids, rs = got
    # yielded (advisory id, package name) -> the next not yet consumed well-formed entry of that advisory and name
    found = {}
    unexpected = []
    for (gid, name), restrict in zip(ids, rs):
        a, b = gid.split("-")
        fi = (int(a) - 200000) * 100 + int(b)
        for ei, e in enumerate(files[fi]):
            if e["name"] == name and "unusable" not in e and (fi, ei) not in found:
                found[(fi, ei)] = restrict
                break
        else:
            unexpected.append((fi, name))
    for fi, name in unexpected:
        ctx.violation("unusable-entry-yielded", dict(case0, file=fi), f"advisory #{fi} yields a restriction for {name} that no well-formed entry accounts for")
    for fi, entries in enumerate(files):
        seen_unusable = False
        for ei, e in enumerate(entries):
            if "unusable" in e:
                seen_unusable = True
                continue
            restrict = found.get((fi, ei))
            cls = list(extra) + ["multi-entry-advisory"]
            if seen_unusable:
                cls.append("wellformed_entry_after_unusable_entry")
            if any("unusable" in x for x in entries[ei + 1:]):
                cls.append("wellformed_entry_before_unusable_entry")
            for p in pkgs:
                case = {"files": [entries], "entry_index": ei, "pkgs": [p]}
                exp = affected(e, p)
                ctx.case(case, nontrivial=e["name"] == p["name"] and (seen_unusable or nontrivial(e, p)),
                         classes=classify(e, p) + cls + ["expect:" + ("affected" if exp else "clean")],
                         key="F|" + " || ".join(entry_text(x) + ("!" + x["unusable"] if "unusable" in x else "") for x in entries)
                             + f"|{ei}|" + pkg_text(p))
                if restrict is None:
                    if exp:
                        b = "entry-dropped:after-unusable-entry" if seen_unusable else "entry-dropped"
                        ctx.violation(b, case, f"no restriction is yielded for well-formed entry #{ei} [{entry_text(e)}] of an advisory whose "
                                               f"entries are {[x.get('unusable', 'ok') for x in entries]}; {pkg_text(p)} goes unreported")
                    continue

                def body(restrict=restrict, e=e, p=p, case=case, exp=exp):
                    g = bool(restrict.match(objs.pkg(p)))
                    if g != exp:
                        ctx.violation(bucket_for(objs, e, p, g, exp), case,
                                      f"[{entry_text(e)}] vs {pkg_text(p)}: restriction.match={g}, GLSA reference={exp}")

                core.guarded(ctx, case, body)
    import shutil

    shutil.rmtree(d, ignore_errors=True)


WELLFORMED = [
    lambda n: mkentry(name=n, vulnerable=[mkrange("lt", "2")]),
    lambda n: mkentry(name=n, vulnerable=[mkrange("rge", "1", "1", slot="0")], unaffected=[mkrange("eq", "1", "2")]),
    lambda n: mkentry(name=n, arch="x86", vulnerable=[mkrange("ge", "1.1"), mkrange("eq", "0.9")]),
]


def task_bystanders(ctx, objs):
    """each unusable kind (in a vulnerable or an unaffected range) at every position among well-formed entries"""
    pkgs = [mkpkg(name=n, ver=v, rev=r, slot=sl) for n in ("a/x", "a/y", "a/u")
            for (v, r, sl) in (("0.9", None, "0"), ("1", None, "0"), ("1", "1", "0"), ("1", "2", "1"), ("1.1", None, "0"), ("3", None, "0"))]
    files = []
    n = 0
    for kind in UNUSABLE:
        for where in ("vulnerable", "unaffected"):
            for uname in ("a/u", "a/x"):
                u = lambda: unusable_entry(kind, uname, where)  # noqa: E731
                w = [WELLFORMED[(n + k) % len(WELLFORMED)] for k in range(3)]
                n += 1
                files.append([u(), w[0]("a/x"), w[1]("a/y")])
                files.append([w[0]("a/x"), u(), w[1]("a/y")])
                files.append([w[0]("a/x"), w[1]("a/y"), u()])
                files.append([w[2]("a/y"), u(), u(), w[0]("a/x"), w[1]("a/x")])
    files.append([w("a/x") for w in WELLFORMED])  # control: no unusable entry
    for i in range(0, len(files), 60):
        check_files(ctx, objs, files[i:i + 60], pkgs, extra=("bystanders",))
    ctx.note("bystander_advisories", len(files))


# ---- universes ---------------------------------------------------------------------------------

RVERS = ["1", "1.0", "1.1", "10", "2", "1_p1", "1_p", "1a"]
RREVS = [None, "0", "1", "10"]
PVERS = ["0.9", "1", "1.0", "1.1", "1.10", "10", "11", "2", "1_p1", "1_p10", "1_pre", "1_p", "1a", "1.0.5"]
PREVS = [None, "1", "2", "11"]


def all_ranges():
    out = []
    for op in OPS:
        for v in RVERS:
            for r in RREVS:
                if op == "rlt" and not R.rev_int(r):
                    continue
                out.append((op, v, r, False))
    for v in RVERS:
        for r in (None, "1"):
            out.append(("eq", v, r, True))
    return out


def package_pool():
    pk = []
    for i, (v, r) in enumerate(itertools.product(PVERS, PREVS)):
        pk.append(mkpkg(ver=v, rev=r, slot=("0", "1", "10")[i % 3]))
    pk.append(mkpkg(name="a/y", ver="1", slot="0"))
    return pk


def task_single(ctx, objs, slice_, nslices):
    pkgs = package_pool()
    entries = []
    n = 0
    for (op, v, r, glob) in all_ranges():
        for slot in (None, "0", "1"):
            n += 1
            if n % nslices != slice_:
                continue
            rng = mkrange(op, v, r, glob, slot)
            entries.append(mkentry(vulnerable=[rng]))
            entries.append(mkentry(vulnerable=[mkrange("ge", "0")], unaffected=[rng]))
    for i in range(0, len(entries), 150):
        if ctx.out_of_time():
            ctx.note("exhaustive_single", False)
            return
        check_entries(ctx, objs, entries[i:i + 150], pkgs)
    ctx.note("exhaustive_single", True)


def task_arch(ctx, objs):
    entries = []
    for arch in (None, "*", "x86", "amd64", "x86 amd64", " ppc ", "x86 *", ""):
        entries.append(mkentry(arch=arch, vulnerable=[mkrange("lt", "2")]))
        entries.append(mkentry(arch=arch, vulnerable=[mkrange("ge", "1"), mkrange("eq", "0.9")], unaffected=[mkrange("rge", "1", "2")]))
    pkgs = []
    for kw in ((), ("x86",), ("amd64",), ("ppc",), ("amd64", "ppc"), ("~sparc",), ("x86", "amd64", "ppc")):
        for v, r in (("1", None), ("1", "2"), ("0.9", None), ("2", None)):
            pkgs.append(mkpkg(ver=v, rev=r, keywords=kw))
    check_entries(ctx, objs, entries, pkgs, extra=("arch-family",), full=True)


# ---- hypothesis --------------------------------------------------------------------------------

_ver = V.version()
_op = st.sampled_from(OPS + ("eq", "rge", "rle", "rgt"))
_slotattr = st.sampled_from([None, None, None, "0", "1"])
_pslot = st.sampled_from(["0", "0", "1"])
_archattr = st.sampled_from([None, "*", "*", "x86", "x86 amd64", "ppc"])
_kw = st.sampled_from([("x86",), ("amd64",), ("x86", "amd64"), ("ppc",), ("~sparc",), ()])
_name = st.sampled_from(["a/x", "a/x", "a/x", "a/y"])
_i = {n: st.integers(0, n) for n in (1, 2, 3, 5)}
_unit = st.floats(0, 1, exclude_max=True)


def _cuts(full):
    return [i for i in range(1, len(full) + 1) if A._valid_fullver(full[:i])]


@st.composite
def _range(draw, installed):
    base = installed[int(draw(_unit) * len(installed))]
    bv = (base["ver"], base["rev"])
    op = draw(_op)
    glob = op == "eq" and draw(_i[2]) == 0
    how = draw(_i[3])
    if glob and how:
        full = M.fullver(*bv)
        cuts = _cuts(full)
        v, r = R.split_fullver(full[:cuts[int(draw(_unit) * len(cuts))]])
    elif how == 0:
        v, r = draw(_ver)
    elif how == 1:
        v, r = bv
    else:
        v, r = draw(V.mutated(bv))
    v, r = canon_rev(v, r)
    if op == "rlt" and not R.rev_int(r):
        r = "1"
    return mkrange(op, v, r, glob, draw(_slotattr))


def canon_rev(v, r):
    """revisions without leading zeros (the file format carries plain text; -r01 vs -r1 spelling is C01's matter)"""
    if r is None:
        return v, None
    return v, str(int(r))


@st.composite
def advisory(draw):
    n_inst = draw(st.integers(2, 6))
    first = draw(_ver)
    installed = []
    for k in range(n_inst):
        v, r = canon_rev(*(first if k == 0 else draw(V.mutated(first)) if draw(_i[3]) else draw(_ver)))
        installed.append(mkpkg(name=draw(_name), ver=v, rev=r, slot=draw(_pslot), keywords=draw(_kw)))
    # FakeRepo / sorted() need distinct packages
    seen, uniq = set(), []
    for p in installed:
        k = (p["name"], M.fullver(p["ver"], p["rev"]))
        if k not in seen:
            seen.add(k)
            uniq.append(p)
    entries = []
    for _ in range(draw(st.integers(1, 3))):
        vul = [draw(_range(uniq)) for _ in range(draw(st.integers(1, 3)))]
        una = [draw(_range(uniq)) for _ in range(draw(_i[2]))]
        entries.append(mkentry(name=draw(_name), arch=draw(_archattr), vulnerable=vul, unaffected=una))
    return entries, uniq


_kind = st.sampled_from(sorted(UNUSABLE))
_where = st.sampled_from(["vulnerable", "unaffected"])
_uname = st.sampled_from(["a/x", "a/y", "a/u"])


@st.composite
def advisory_file(draw):
    """one advisory = the entries of advisory() in document order, with 0-2 unusable entries inserted anywhere"""
    entries, pkgs = draw(advisory())
    out = list(entries)
    for _ in range(draw(_i[2])):
        pos = int(draw(_unit) * (len(out) + 1))
        out.insert(pos, unusable_entry(draw(_kind), draw(_uname), draw(_where)))
    return out, pkgs


def plan(tier, seed):
    A.preload()
    tasks = [{"task": "bystanders"}, {"task": "arch"}]
    tasks += [{"task": "single", "slice": i, "nslices": 6} for i in range(6)]
    n, ex = (5, 200) if tier == "quick" else (16, 5000)
    for i in range(n):
        tasks.append({"task": "hyp", "examples": ex})
    return tasks


def run_task(ctx, task, **kw):
    objs = Objs()
    if task == "single":
        task_single(ctx, objs, kw["slice"], kw["nslices"])
    elif task == "arch":
        task_arch(ctx, objs)
    elif task == "bystanders":
        task_bystanders(ctx, objs)
    elif task == "hyp":
        def f(adv):
            check_entries(ctx, objs, adv[0], adv[1], extra=("hyp",), full=True)
            objs._pk.clear()

        def f2(adv):
            check_files(ctx, objs, [adv[0]], adv[1], extra=("hyp",))
            objs._pk.clear()

        n = kw["examples"]
        core.hyp_run(ctx, advisory(), f, n - n // 3, chunk=150)
        core.hyp_run(ctx, advisory_file(), f2, n // 3, chunk=150, seed_salt=1)
    else:
        raise core.HarnessError(f"unknown task {task}")


def replay(ctx, case):
    objs = Objs()
    if "files" in case:
        check_files(ctx, objs, case["files"], case["pkgs"])
    elif "entries" in case:
        check_entries(ctx, objs, case["entries"], case["pkgs"], full=True)
    else:
        check_entries(ctx, objs, [case["entry"]], [case["pkg"]])
