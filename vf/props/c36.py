"""C36 Fetching returns only verified files and uses every allowed attempt.

What is driven: `pkgcore.fetch.custom.fetcher.fetch()` with a *scripted, deterministic fetcher command*.
Two drivers share one oracle:

* ``real``: the configured command is a bash one-liner that sources a harness-written helper (bash
  builtins only).  It is executed through the unmodified `spawn_bash`, reads the outcome script of the case,
  logs `(n, mode, URI, path, content found)` and produces the scripted file state / exit status.
* ``sim``: same script interpreter in Python, installed as `pkgcore.fetch.custom.spawn_bash` (the seam
  pkgcore's own tests mock).  ~50x cheaper, which is what makes the 4-attempt space exhaustible.

Oracle (independent of the attempt loop: it looks only at the invocation log, the exception / return value
and the bytes in distdir; expected size / hashes come from hashlib):

  O1 returned path  => it is distdir/filename and the bytes there have the expected size and every checksum
     of the target (target without checksums: non-empty file that was not produced by a fetcher run that
     exited non-zero);
  O2 some executed fetcher run left such a file  => fetch() returns the path (no further run, no exception);
  O3 fetch() raised although budget was left (runs < min(attempts, #URIs)) => the file left by the last run
     must be a hard failure (present, wrong, not resumable); giving up on a missing / empty / resumable
     partial file with budget left is a violation; more runs than `attempts` is a violation;
  O4 a non-empty strict prefix of a target with a size checksum is resumable: the next run (if any) must be
     the *resume* command and must still find the partial bytes; after a failed fetch they are still there;
  O5 only `FetchError` subclasses escape; every run gets a URI of the target and the right file path.

Dropped from DESIGN §3 C36: nothing substantial.  Added: an `empty` outcome (zero-length file), targets with a
hash but no size, fetchers without a separate resume command, `uri_list` objects with a mirror tier.
The statement does not say whether a checksum failure may abort the remaining attempts (the code re-raises
`ChksumFailure` at once); O3 therefore accepts an early abort on hard failures and O2 is conditional on the
runs that were really executed.
"""
import hashlib
import itertools
import os
import random

from .. import core

ID = "C36"
TITLE = "Fetching returns only verified files and uses every allowed attempt"
LEVEL = "fault_enumeration"
TECHNIQUE = "exhaustive fetcher-outcome sequences through a scripted fetch command; log/bytes oracle with hashlib reference"
DESIGN_REF = "DESIGN.md §3 C36"
LEVEL_TEXT = (
    "Fault enumeration: every sequence of fetcher outcomes {nothing, empty, partial, oversized, corrupt, correct} x "
    "exit status {0,1} up to the attempt budget (1-4), for 5 checksum kinds, 6 pre-existing file states, URI lists "
    "longer/equal/shorter than the budget, plain and mirror-tier URI sources, with and without a resume command "
    "(thorough: all of them through the simulated spawn seam, all sequences for budgets 1-2 plus a slice of budget 3 "
    "through real bash; quick: a seeded slice of both)."
)
LEVEL_NOTE = (
    "Trusted: hashlib, the harness' fetcher script interpreter (bash helper / Python twin). The fetcher command is the "
    "fault source; the file system itself is not faulted. Budgets above 4 are not explored."
)
RULE = (
    "case = (driver, attempts, checksum kind, pre-existing state, #URIs, URI form, resume command?, outcome word); words are "
    "all words over 12 letters (outcome x exit) in which a verifying 'correct' letter may only be last; non-trivial = "
    "at least one fetcher run and (first verifying run is the last allowed attempt, or a partial file is followed by "
    "another run, or the URI list is exhausted before the budget, or a hard failure aborts with budget left); "
    "distinct = distinct case tuple"
)
ASSUMPTIONS = [
    "a fetcher command is fully described by the file state it leaves and its exit status",
    "the simulated spawn seam (pkgcore.fetch.custom.spawn_bash) behaves like the real bash helper; both are run and share the oracle",
    "aborting the remaining attempts on a non-resumable checksum failure is permitted by the statement",
]
BUDGET = {"quick": 50, "thorough": 900}

FNAME = "vf-distfile-1.0.tar"
CORRECT = b"vfDISTFILEcontent0123456789abcdefXYZ"
CONTENT = {
    "correct": CORRECT,
    "partial": CORRECT[:13],
    "oversized": CORRECT + b"EXTRA",
    "corrupt": CORRECT[:10] + b"Q" * 6 + CORRECT[16:],
    "empty": b"",
}
assert len(CONTENT["corrupt"]) == len(CORRECT) and CONTENT["corrupt"] != CORRECT
OUTCOMES = ("nothing", "empty", "partial", "oversized", "corrupt", "correct")
PRE_STATES = ("missing", "empty", "partial", "corrupt", "oversized", "correct")
KINDS = {
    "size+sha256": ("size", "sha256"),
    "sha256": ("sha256",),
    "size": ("size",),
    "none": (),
    "size+sha512+blake2b": ("size", "sha512", "blake2b"),
}
BASE_KINDS = ("size+sha256", "sha256", "size", "none")
LETTERS = [(o, s) for o in OUTCOMES for s in (0, 1)]


def ref_chksums(kind):
    out = {}
    for c in KINDS[kind]:
        if c == "size":
            out[c] = len(CORRECT)
        else:
            out[c] = int(hashlib.new(c, CORRECT).hexdigest(), 16)
    return out


def ref_matches(kind, content):
    """reference verification of bytes against the target's checksums (checksum kinds only)"""
    if content is None:
        return False
    for c in KINDS[kind]:
        if c == "size":
            if len(content) != len(CORRECT):
                return False
        elif hashlib.new(c, content).digest() != hashlib.new(c, CORRECT).digest():
            return False
    return True


def make_uris(n, form):
    """-> (object handed to fetchable, expected URI strings in order)"""
    from pkgcore import fetch

    if form == "list":
        u = [f"http://host{i}.invalid/dist/{FNAME}" for i in range(n)]
        return u, u
    ul = fetch.uri_list(FNAME)
    exp = []
    nm = min(2, n)
    hosts = tuple(f"http://mirror{i}.invalid/distfiles/" for i in range(nm))
    ul.add_mirror(fetch.default_mirror(hosts, "gentoo"))
    exp.extend(f"{h.rstrip('/')}/{FNAME}" for h in hosts)
    for i in range(n - nm):
        s = f"https://upstream{i}.invalid/rel/{FNAME}"
        ul.add_uri(s)
        exp.append(s)
    ul.finalize()
    return ul, exp


HELPER = r"""
d=__DIR__
read -r n < "$d/count"
n=$((n+1))
echo "$n" > "$d/count"
mode=$1 uri=$2 path=$3
if [[ -e $path ]]; then pre="=$(<"$path")"; else pre="-"; fi
echo "$n|$mode|$uri|$path|$pre" >> "$d/log"
mapfile -t lines < "$d/script"
line=${lines[n-1]:-nothing 1}
set -- $line
case $1 in
    nothing) ;;
    empty) : > "$path" ;;
    partial|oversized|corrupt|correct) printf '%s' "$(<"$d/$1")" > "$path" ;;
esac
exit "$2"
"""


class Driver:
    """one per task: scratch dirs + the two fetcher back ends"""

    def __init__(self, ctx):
        from pkgcore.fetch import custom, errors

        self.custom, self.errors = custom, errors
        self.ctx = ctx
        self.base = ctx.fresh_dir("c36")
        self.dist = os.path.join(self.base, "dist dir")  # a space: the command has to quote
        os.mkdir(self.dist)
        self.path = os.path.join(self.dist, FNAME)
        self.orig_spawn = custom.spawn_bash
        self.helper_ready = False
        self.sim_log = None
        self.sim_script = None

    # -- real bash ----------------------------------------------------------
    def setup_helper(self):
        if self.helper_ready:
            return
        self.hdir = os.path.join(self.base, "ctl")
        os.mkdir(self.hdir)
        for k, v in CONTENT.items():
            with open(os.path.join(self.hdir, k), "wb") as f:
                f.write(v)
        with open(os.path.join(self.hdir, "fetcher.sh"), "w") as f:
            f.write(HELPER.replace("__DIR__", self.hdir))
        self.helper_ready = True

    def real_commands(self):
        h = os.path.join(self.hdir, "fetcher.sh")
        return (
            f'. {h} fetch "${{URI}}" "${{DISTDIR}}/${{FILE}}"',
            f'. {h} resume "$URI" "$DISTDIR/$FILE"',
        )

    def real_prepare(self, seq):
        with open(os.path.join(self.hdir, "count"), "w") as f:
            f.write("0\n")
        with open(os.path.join(self.hdir, "log"), "w"):
            pass
        with open(os.path.join(self.hdir, "script"), "w") as f:
            for o, s in seq:
                f.write(f"{o} {s}\n")

    def real_log(self):
        out = []
        with open(os.path.join(self.hdir, "log"), "rb") as f:
            for line in f.read().split(b"\n"):
                if not line:
                    continue
                n, mode, uri, path, pre = line.split(b"|", 4)
                out.append(
                    {
                        "n": int(n),
                        "mode": mode.decode(),
                        "uri": uri.decode(),
                        "path": path.decode(),
                        "pre": None if pre == b"-" else pre[1:],
                    }
                )
        return out

    # -- simulated spawn ----------------------------------------------------
    def sim_spawn(self, cmd, **opts):
        if not isinstance(cmd, str):
            raise core.HarnessError(f"unexpected spawn_bash argument {cmd!r}")
        parts = cmd.split("\t")
        if len(parts) != 4 or parts[0] != "VFSIM":
            raise core.HarnessError(f"unexpected command line {cmd!r}")
        _, mode, uri, path = parts
        try:
            with open(path, "rb") as f:
                pre = f.read()
        except FileNotFoundError:
            pre = None
        n = len(self.sim_log) + 1
        self.sim_log.append({"n": n, "mode": mode, "uri": uri, "path": path, "pre": pre})
        o, s = self.sim_script[n - 1] if n <= len(self.sim_script) else ("nothing", 1)
        if o != "nothing":
            with open(path, "wb") as f:
                f.write(CONTENT[o])
        return s

    SIM_COMMANDS = ("VFSIM\tfetch\t${URI}\t${DISTDIR}/${FILE}", "VFSIM\tresume\t$URI\t$DISTDIR/$FILE")

    # -- one case -------------------------------------------------------------
    def run(self, case):
        ctx = self.ctx
        errors = self.errors
        from pkgcore.fetch import fetchable

        A = case["attempts"]
        kind = case["kind"]
        seq = [tuple(x) for x in case["seq"]]
        real = case["driver"] == "real"
        uris_obj, uris = make_uris(case["n_uris"], case["uri_form"])
        target = fetchable(FNAME, uri=uris_obj, chksums=ref_chksums(kind))
        # pre-existing state
        try:
            os.unlink(self.path)
        except FileNotFoundError:
            pass
        pre = case["pre"]
        if pre != "missing":
            with open(self.path, "wb") as f:
                f.write(CONTENT[pre])
        if real:
            self.setup_helper()
            self.custom.spawn_bash = self.orig_spawn
            cmd, rcmd = self.real_commands()
            self.real_prepare(seq)
        else:
            self.sim_log = []
            self.sim_script = seq
            self.custom.spawn_bash = self.sim_spawn
            cmd, rcmd = self.SIM_COMMANDS
        fobj = self.custom.fetcher(
            distdir=self.dist,
            command=cmd,
            resume_command=rcmd if case["resume_cmd"] else None,
            userpriv=False,
            attempts=A,
        )
        raised = None
        ret = None
        try:
            ret = core.guarded(ctx, case, lambda: fobj.fetch(target), expected=(errors.FetchError,))
        except errors.FetchError as e:
            raised = e
        finally:
            self.custom.spawn_bash = self.orig_spawn
        log = self.real_log() if real else self.sim_log
        try:
            with open(self.path, "rb") as f:
                disk = f.read()
        except FileNotFoundError:
            disk = None
        info = evaluate(ctx, case, seq, uris, self.path, log, ret, raised, disk)
        return info


def state_name(kind, content):
    if content is None:
        return "missing"
    if content == b"":
        return "empty"
    for k, v in CONTENT.items():
        if content == v:
            return k
    return "other"


def evaluate(ctx, case, seq, uris, path, log, ret, raised, disk):
    """the oracle. Records the case and any violation; returns a small dict for tests of the harness."""
    A = case["attempts"]
    kind = case["kind"]
    has_chk = bool(KINDS[kind])
    sized = "size" in KINDS[kind]
    k = len(log)
    allowed = min(A, len(uris))
    crashed = core.crashed(ret)

    # state left by each executed run = scripted outcome applied to what the run found
    after = []  # (content, ok) per run
    producer_exit = 0  # exit status of the run that produced the bytes currently on disk ("pre" counts as 0)
    first_ok = None
    partial_resume = False
    for i, ent in enumerate(log):
        o, s = seq[i] if i < len(seq) else ("nothing", 1)
        content = ent["pre"] if o == "nothing" else CONTENT[o]
        if ent["pre"] is None:
            producer_exit = 0
        if o != "nothing":
            producer_exit = s
        if has_chk:
            ok = ref_matches(kind, content)
        else:
            ok = bool(content) and s == 0 and producer_exit == 0
        after.append((content, ok))
        if ok and first_ok is None:
            first_ok = i + 1
    pre_content = None if case["pre"] == "missing" else CONTENT[case["pre"]]

    def resumable(content):
        return sized and content and len(content) < len(CORRECT) and CORRECT.startswith(content)

    # ---- classes / non-trivial
    cl = [f"driver:{case['driver']}", f"attempts:{A}", f"kind:{kind}", f"pre:{case['pre']}", f"runs:{k}"]
    cl.append("returned" if (ret is not None and not crashed) else "raised")
    last_allowed_ok = first_ok is not None and first_ok == allowed
    if last_allowed_ok:
        cl.append("first_verified_at_last_allowed_attempt")
        if first_ok == A:
            cl.append("first_verified_at_attempt_budget")
    states = [pre_content] + [c for c, _ in after]
    for i in range(len(states) - 1):
        if resumable(states[i]):
            partial_resume = True
    if partial_resume:
        cl.append("partial_then_run")
    exhausted = raised is not None and k == len(uris) and len(uris) < A
    if exhausted:
        cl.append("uris_exhausted")
    hard_abort = raised is not None and k < allowed
    if hard_abort:
        cl.append("abort_with_budget_left")
    if not has_chk and any(s for _, s in seq[:k]):
        cl.append("nochksum_failed_exit")
    nontriv = k >= 1 and (last_allowed_ok or partial_resume or exhausted or hard_abort)
    key = core.jdump([case[x] for x in ("driver", "attempts", "kind", "pre", "n_uris", "uri_form", "resume_cmd", "seq")])
    ctx.case(case, nontrivial=nontriv, classes=cl, key=key)
    if crashed:
        return {"runs": k}

    tag = f"{'chk' if has_chk else 'nochk'}"
    # ---- O5 plumbing
    for ent in log:
        if ent["uri"] not in uris:
            ctx.violation("plumbing:uri-not-of-target", case, f"run {ent['n']} got URI {ent['uri']!r}, target has {uris}")
        if ent["path"] != path:
            ctx.violation("plumbing:wrong-file-path", case, f"run {ent['n']} was told to write {ent['path']!r}, expected {path!r}")
    if k > A:
        ctx.violation("attempts:more-runs-than-budget", case, f"{k} fetcher runs with attempts={A}")

    # ---- O1
    if ret is not None:
        if ret != path:
            ctx.violation("returned:wrong-path", case, f"fetch returned {ret!r}, expected {path!r}")
        if has_chk:
            if not ref_matches(kind, disk):
                ctx.violation(
                    f"returned-unverified:{state_name(kind, disk)}",
                    case,
                    f"fetch returned the path but the file is {state_name(kind, disk)} (checksums {KINDS[kind]})",
                )
        else:
            if not disk:
                ctx.violation(f"returned-unverified:nochk-{state_name(kind, disk)}", case, "fetch returned a path with no/empty file")
            elif producer_exit != 0 and k and disk == after[-1][0]:
                ctx.violation(
                    "returned-unverified:nochk-failed-fetcher-output",
                    case,
                    "target without checksums: returned a file written by a fetcher run that exited non-zero",
                )
    # ---- O2
    if first_ok is not None:
        if k > first_ok:
            ctx.violation(
                f"continued-after-verified:{tag}",
                case,
                f"run {first_ok} left a verified file but the fetcher was run again ({k} runs)",
            )
        elif ret is None:
            where = "last-attempt" if first_ok == A else "before-budget"
            ctx.violation(
                f"verified-file-not-returned:{where}:{tag}",
                case,
                f"run {first_ok} of {A} allowed left a verified file, fetch raised {type(raised).__name__}: {raised}",
            )
    # ---- O3
    if ret is None and first_ok is None and k < allowed:
        last = states[-1]
        if has_chk:
            soft = last is None or last == b"" or resumable(last)
        else:
            soft = True
        if soft:
            ctx.violation(
                f"gave-up-early:{state_name(kind, last)}:{tag}",
                case,
                f"{k} run(s) of {allowed} allowed, file is {state_name(kind, last)}, fetch raised {type(raised).__name__}: {raised}",
            )
    # ---- O4
    for i in range(len(states)):
        if not resumable(states[i]):
            continue
        if i < k:
            nxt = log[i]
            if nxt["pre"] != states[i]:
                ctx.violation(
                    "resume:partial-not-kept",
                    case,
                    f"resumable partial file before run {i + 1} was replaced by {state_name(kind, nxt['pre'])}",
                )
            if case["resume_cmd"] and nxt["mode"] != "resume":
                ctx.violation("resume:fetch-command-on-partial", case, f"run {i + 1} found a resumable partial file but used the {nxt['mode']} command")
        elif ret is None and disk != states[i]:
            ctx.violation(
                "resume:partial-not-kept-after-failure",
                case,
                f"fetch failed; resumable partial file is now {state_name(kind, disk)}",
            )
    return {"runs": k, "first_ok": first_ok}


# ---- enumeration ---------------------------------------------------------------

def words(A, kind):
    """all outcome words of length <= A where a verifying letter can only be the last one and
    shorter words end with a verifying letter (what follows a verified file is never executed by a
    correct fetcher; the interpreter answers ('nothing', 1) past the end of the script)."""
    has_chk = bool(KINDS[kind])

    def verifying(letter):
        o, s = letter
        if not has_chk:
            return False  # depends on state; no truncation
        return ref_matches(kind, CONTENT[o]) if o != "nothing" else False

    out = []

    def rec(prefix):
        if len(prefix) == A:
            out.append(list(prefix))
            return
        for L in LETTERS:
            if verifying(L):
                out.append(list(prefix) + [L])
            else:
                rec(prefix + [L])

    rec([])
    return out


def configs(A, driver):
    # the multi-hash kind makes snakeoil hash in helper threads (slow): budget 1 only in the simulated driver
    kinds = list(BASE_KINDS) + (["size+sha512+blake2b"] if A <= (2 if driver == "real" else 1) else [])
    for kind in kinds:
        for pre in PRE_STATES:
            for n_uris in sorted({A + 1, A, max(1, A - 1)}):
                forms = ("list", "uri_list") if A <= 3 else (("list",) if n_uris % 2 else ("uri_list",))
                for form in forms:
                    for rc in (True, False) if A <= 2 else (True,):
                        yield {"driver": driver, "attempts": A, "kind": kind, "pre": pre, "n_uris": n_uris, "uri_form": form, "resume_cmd": rc}


def iter_cases(A, driver):
    wcache = {}
    for cfg in configs(A, driver):
        kind = cfg["kind"]
        pre_content = None if cfg["pre"] == "missing" else CONTENT[cfg["pre"]]
        pre_ok = ref_matches(kind, pre_content) if KINDS[kind] else bool(pre_content)
        if pre_ok:
            # nothing is ever run: one representative word + the all-correct one
            ws = [[("nothing", 1)] * A, [("correct", 0)]]
        else:
            ws = wcache.get(kind)
            if ws is None:
                ws = wcache[kind] = words(A, kind)
        for w in ws:
            c = dict(cfg)
            c["seq"] = [list(x) for x in w]
            yield c


def plan(tier, seed):
    import pkgcore.fetch.custom  # noqa: F401  (warm import: forked task workers inherit it)

    tasks = []
    if tier == "quick":
        for A, frac, nsl in ((1, 1.0, 1), (2, 0.25, 2), (3, 0.06, 2), (4, 0.008, 6)):
            for i in range(nsl):
                tasks.append({"task": "enum", "driver": "sim", "attempts": A, "slice": i, "nslices": nsl, "sample": frac})
        # real bash is ~10 ms per fetcher run on an idle machine and far more under load: keep the slice small
        for A, frac, nsl in ((1, 0.04, 1), (2, 0.003, 2), (3, 0.0004, 2)):
            for i in range(nsl):
                tasks.append({"task": "enum", "driver": "real", "attempts": A, "slice": i, "nslices": nsl, "sample": frac})
    else:
        for A, nsl in ((1, 1), (2, 2), (3, 8), (4, 48)):
            for i in range(nsl):
                tasks.append({"task": "enum", "driver": "sim", "attempts": A, "slice": i, "nslices": nsl, "sample": 1.0})
        for A, frac, nsl in ((1, 1.0, 4), (2, 0.1, 8), (3, 0.005, 8)):
            for i in range(nsl):
                tasks.append({"task": "enum", "driver": "real", "attempts": A, "slice": i, "nslices": nsl, "sample": frac})
    # real-bash tasks first: they are the slow ones and should overlap with the simulated ones
    tasks.sort(key=lambda t: t["driver"] != "real")
    return tasks


def run_task(ctx, task, **kw):
    if task != "enum":
        raise core.HarnessError(f"unknown task {task}")
    drv = Driver(ctx)
    A = kw["attempts"]
    sample = kw["sample"]
    full = sample >= 1.0
    rnd = random.Random(ctx.seed * 7919 + A * 101 + kw["slice"] + (17 if kw["driver"] == "real" else 0))  # selects the slice a quick run visits
    n = 0
    for idx, case in enumerate(iter_cases(A, kw["driver"])):
        if idx % kw["nslices"] != kw["slice"]:
            continue
        if not full and rnd.random() >= sample:
            continue
        if (n % 64 == 0 or kw["driver"] == "real") and ctx.out_of_time():
            full = False
            break
        drv.run(case)
        n += 1
    ctx.note(f"exhaustive_{kw['driver']}_attempts{A}", bool(full))
    ctx.note("exhaustive", bool(full) if kw["driver"] == "sim" else True)


def replay(ctx, case):
    Driver(ctx).run(case)


def shrink_case(ctx, bucket, case):
    """greedy: fewer attempts / shorter word / simpler config while the bucket is still hit"""
    drv = Driver(ctx)

    def hits(c):
        sub = core.Ctx(ctx.pid, ctx.tier, ctx.seed)
        sub._scratch = ctx.scratch
        d2 = drv
        d2.ctx = sub
        try:
            d2.run(c)
        finally:
            d2.ctx = ctx
        return bucket in sub.violations

    cur = dict(case)
    improved = True
    while improved:
        improved = False
        cands = []
        if cur["attempts"] > 1:
            c = dict(cur, attempts=cur["attempts"] - 1, seq=cur["seq"][: cur["attempts"] - 1], n_uris=max(1, cur["n_uris"] - 1))
            cands.append(c)
        for i in range(len(cur["seq"])):
            if cur["seq"][i] != ["nothing", 1] and cur["seq"][i][0] != "correct":
                s2 = [list(x) for x in cur["seq"]]
                s2[i] = ["nothing", 1]
                cands.append(dict(cur, seq=s2))
            if cur["seq"][i][1] == 1 and cur["seq"][i][0] != "nothing":
                s2 = [list(x) for x in cur["seq"]]
                s2[i] = [s2[i][0], 0]
                cands.append(dict(cur, seq=s2))
        if cur["pre"] != "missing":
            cands.append(dict(cur, pre="missing"))
        if cur["uri_form"] != "list":
            cands.append(dict(cur, uri_form="list"))
        if not cur["resume_cmd"]:
            cands.append(dict(cur, resume_cmd=True))
        if cur["kind"] not in ("size+sha256", "none"):
            cands.append(dict(cur, kind="size+sha256"))
        if cur["driver"] != "sim":
            cands.append(dict(cur, driver="sim"))
        for c in cands:
            if len(core.jdump(c)) <= len(core.jdump(cur)) and c != cur and hits(c):
                cur = c
                improved = True
                break
    return cur
