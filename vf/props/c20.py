"""C20 Unmerge removes exactly what it owns and never base directories; replace keeps what the new
package installs.

What runs: the real `MergeEngine.uninstall` / `MergeEngine.replace` (hook order of
pkgcore.operations.domain) with disable_plugins=True and exactly the triggers `merge`, `unmerge`,
`BaseSystemUnmergeProtection`, over a generated live root, with a non-/ offset or (process chroot()ed into
the scratch root for the duration of the run) with offset "/".  Old package = vdb-shaped contents objects, new
package = livefs.scan of a real image directory (vf/gen/mergefs.py).

Oracle (independent: filesystem snapshots before/after + my own path resolver vf/ref/fsmodel.py;
nothing is asked from pkgcore): with L = recorded entries, K = entries of the new package, phys(P) =
P with symlinks in its *parent* components resolved on the snapshot taken just before the unmerge
phase:
  frame      every path outside phys(L) is identical afterwards (type, mode, owner, bytes, symlink
             target, mtime of non-directories); nothing new appears
  keep       every path in phys(K) is identical afterwards (replace never removes what the new
             package installed, also when the old package reached it through a symlinked directory)
  listed     paths in phys(L)-phys(K) are afterwards either gone or untouched
  must-go    a recorded non-directory whose on-disk entry is a non-directory, not kept, not a
             protected base path, is gone
  base       the protected base paths (/usr /usr/lib* /usr/bin /usr/sbin /bin /sbin /lib* /etc /var
             /home /root, own copy of the list) are never removed, even when empty and recorded
  dirs       (cases without symlinked directories / type mismatches only) a recorded, unprotected,
             real directory whose whole content went away is removed
  merge phase (replace) every entry of the new package is on disk with its bytes/target after the
             merge and after the whole replace; paths outside phys(new) are untouched by the merge.
A symlink is "followed" when frame reports a removed/changed path at or below a recorded symlink's
target; those get their own bucket.

Dropped / not demanded (statement silent): what happens to a recorded *directory* whose on-disk
entry is a symlink (pkgcore unlinks it; Portage keeps it) and to recorded non-directories that are
directories on disk; when such a recorded alias is followed on the way to another recorded entry
(ancestor or link of a chain) the must-go claim is only checked on the lexical path.  Names ending in `#new` are not generated (that
window belongs to C18/C19).  Relative symlink targets never contain `..`; cross-directory links
are absolute (root-relative in the chroot, <offset>-prefixed in offset mode) so no generated path
can resolve into the host's real root.
"""
import copy

from hypothesis import strategies as st

from .. import core
from ..gen import mergefs as M
from ..ref.fsmodel import Tree

ID = "C20"
TITLE = "Unmerge removes exactly what it owns and never base directories"
LEVEL = "exploration"
TECHNIQUE = "generated live roots + old/new contents through the real MergeEngine; snapshot-diff oracle with independent path resolver"
DESIGN_REF = "DESIGN.md §3 C20"
LEVEL_TEXT = (
    "Generated-input search: random live trees (symlinked directories, recorded symlinks with existing targets, "
    "non-empty recorded directories, base directories, type mismatches, missing entries) x random recorded / new "
    "contents x {uninstall, replace} x {non-/ offset, chroot with offset /}; every run is judged from lstat-level "
    "snapshots taken before the engine, between merge and unmerge, and after."
)
LEVEL_NOTE = (
    "Trusted: vf/fsx.py snapshots, vf/ref/fsmodel.py path resolution, the harness' own copy of the protected "
    "directory list. The merge half of replace is only checked for presence/content of the new entries (C18 owns it). "
    "No proof of absence."
)
RULE = (
    "case = (mode, chroot?, root tree, recorded contents, new image) drawn by hypothesis from a fixed vocabulary of "
    "directories (incl. /usr /etc /var /lib64 ..., up to three levels below an aliased directory), directory aliases "
    "(lib->lib64, opt/lnk->app, absolute ones, chains lib->/usr/lib->lib64, a symlink inside an aliased directory), leaf "
    "names; non-trivial = at least one recorded entry exists on disk AND the case has a recorded symlink whose target "
    "exists, or a recorded directory kept alive by unrecorded content, or a recorded base directory, or an entry reached "
    "through a symlinked directory, or (replace) an entry shared by old and new (classes: same spelling / respelled "
    "through an alias at depth 1 / depth 2+ / multi-hop), or a type mismatch; distinct = "
    "canonical JSON of the case"
)
ASSUMPTIONS = [
    "recorded contents have the shape vdb ContentsFile produces; new contents the shape livefs.scan(image, offset=image) produces",
    "hooks are driven in the order pkgcore.operations.domain uses; only merge/unmerge/BaseSystemUnmergeProtection are registered",
    "runs as root; chroot(2) available (used for the offset '/' half)",
    "behaviour for a recorded directory that is a symlink on disk is not judged (statement silent)",
]
BUDGET = {"quick": 25, "thorough": 840}

TRIGGERS = ["merge", "unmerge", "basesys"]

BASE = ("usr", "usr/lib", "usr/lib64", "usr/lib32", "usr/bin", "usr/sbin", "bin", "sbin", "lib", "lib32", "lib64",
        "etc", "var", "home", "root")

DIRS = ["usr", "usr/lib64", "usr/bin", "usr/share", "usr/share/app", "etc", "etc/app", "var", "var/lib", "var/lib/app",
        "opt", "opt/app", "opt/app/sub", "opt/b", "srv", "srv/data", "lib64", "home",
        "usr/lib64/foo", "usr/lib64/foo/plugins", "lib64/mod", "srv/data/sub", "srv/data/sub/deep", "usr/share/app/x",
        "etc/app/conf.d", "opt/b/deep"]
# (alias path, target as written in the symlink, physical directory it denotes, alias it chains through or None)
ALIASES = [
    ("usr/lib", "lib64", "usr/lib64", None), ("usr/lib", "/usr/lib64", "usr/lib64", None), ("lib", "lib64", "lib64", None),
    ("lib", "/usr/lib64", "usr/lib64", None), ("opt/lnk", "app", "opt/app", None), ("opt/lnk", "/opt/b", "opt/b", None),
    ("srv/l", "data", "srv/data", None), ("var/l", "/opt/app/sub", "opt/app/sub", None),
    ("usr/share/lnk", "app", "usr/share/app", None), ("etc/alt", "app", "etc/app", None),
    # chains (a symlink whose target is a symlink) and a symlink inside a directory that may itself be aliased
    ("lib", "/usr/lib", "usr/lib64", "usr/lib"), ("srv/chain", "l", "srv/data", "srv/l"),
    ("opt/app/cur", "sub", "opt/app/sub", None), ("usr/lib64/foo/cur", "plugins", "usr/lib64/foo/plugins", None),
]
NAMES = ["f", "g", "conf", "x y", "lib.so", "ü", ".keep", "zz"]


def _parents(p):
    out = []
    while "/" in p:
        p = p.rsplit("/", 1)[0]
        out.append(p)
    return out


@st.composite
def cases(draw):
    mode = draw(st.sampled_from(["uninstall", "replace", "replace"]))
    chroot = draw(st.booleans())
    dirs = set(draw(st.lists(st.sampled_from(DIRS), min_size=1, max_size=5, unique=True)))
    aliases = {}
    for a, tgt, phys, via in draw(st.lists(st.sampled_from(ALIASES), max_size=2, unique_by=lambda x: x[0])):
        aliases[a] = (tgt, phys)
        dirs.add(phys)
        if via is not None and via not in aliases:
            a2, tgt2, phys2, _v = next(x for x in ALIASES if x[0] == via)
            aliases[a2] = (tgt2, phys2)
            dirs.add(phys2)
    # packages put things into subdirectories of an aliased directory as well, not only directly into it
    for a, (_t, phys) in sorted(aliases.items()):
        nested = [x for x in DIRS if x.startswith(phys + "/")]
        if nested and draw(st.integers(0, 9)) < 6:
            dirs.add(draw(st.sampled_from(nested)))
    for d in list(dirs):
        dirs.update(_parents(d))
    for a in aliases:
        dirs.update(_parents(a))
    dirs = sorted(dirs)
    list_dirs = draw(st.sampled_from([True, True, True, False]))

    root, old, new = [], [], []
    on_disk = {}
    for d in dirs:
        on_disk[d] = draw(st.sampled_from([True, True, True, True, False]))
    # a directory exists when anything below it exists
    old_dirs, new_dirs = set(), set()

    def lexical(d, pick):
        """path of physical dir d as a package would name it: pick == 0 the real spelling, else through
        one of the aliases that lead to it (and, when the result again lies under an aliased directory,
        possibly through a second one: two symlinks in one path)"""
        path = d
        seen = set()
        for rnd in range(2):
            if not pick:
                break
            cand = [(a, phys) for a, (_t, phys) in sorted(aliases.items())
                    if a not in seen and (path == phys or path.startswith(phys + "/"))]
            if not cand:
                break
            a, phys = cand[(pick - 1) % len(cand)]
            seen.add(a)
            path = a + path[len(phys):]
            pick = pick // 2
        return path

    aliased_dirs = [d for d in dirs if any(d == ph or d.startswith(ph + "/") for _t, ph in aliases.values())]

    nleaves = draw(st.integers(1, 7))
    used = set()
    leaves = []
    for i in range(nleaves):
        if aliased_dirs and draw(st.booleans()):
            d = draw(st.sampled_from(aliased_dirs))
        else:
            d = draw(st.sampled_from(dirs))
        name = draw(st.sampled_from(NAMES))
        if (d, name) in used:
            continue
        used.add((d, name))
        rk = draw(st.sampled_from(["file", "file", "file", "sym_file", "sym_dir", "sym_dir_abs", "sym_dangling", "fifo",
                                   "none", "dir"]))
        ok = draw(st.sampled_from(["file", "file", "file", "sym", "sym", "fifo", "none", "dir"]))
        nk = "none"
        if mode == "replace":
            nk = draw(st.sampled_from(["file", "file", "sym", "fifo", "none", "none"]))
        # keep recorded/live types mostly aligned (mismatches stay possible but rarer)
        if draw(st.integers(0, 9)) < 8:
            if rk.startswith("sym"):
                ok = "sym" if ok != "none" else ok
            elif rk in ("file", "fifo", "dir") and ok != "none":
                ok = rk
        if rk == "dir" or ok == "dir":
            nk = "none"  # a non-directory merged over a directory is a documented refusal (C18)
        leaves.append((d, name, rk, ok, nk, draw(st.integers(0, 4)), draw(st.integers(0, 4)), draw(st.booleans()), i))

    for d, name, rk, ok, nk, ali_old, ali_new, same, i in leaves:
        p = f"{d}/{name}"
        if rk != "none":
            on_disk[d] = True
        if rk == "file":
            root.append({"path": p, "type": "file", "data": f"r{i}"})
        elif rk == "fifo":
            root.append({"path": p, "type": "fifo"})
        elif rk == "dir":
            root.append({"path": p, "type": "dir"})
            if same:
                root.append({"path": p + "/inner", "type": "file", "data": "inner"})
        elif rk == "sym_file":
            root.append({"path": p + ".tgt", "type": "file", "data": f"t{i}"})
            root.append({"path": p, "type": "sym", "target": name + ".tgt"})
        elif rk == "sym_dir":
            root.append({"path": p + ".d/keep", "type": "file", "data": f"k{i}"})
            root.append({"path": p, "type": "sym", "target": name + ".d"})
        elif rk == "sym_dir_abs":
            td = dirs[i % len(dirs)]
            on_disk[td] = True
            root.append({"path": td + "/kept-by-link", "type": "file", "data": f"k{i}"})
            root.append({"path": p, "type": "sym", "target": "/" + td})
        elif rk == "sym_dangling":
            root.append({"path": p, "type": "sym", "target": "nowhere"})
        if ok != "none":
            lp = lexical(d, ali_old) + "/" + name
            e = {"path": lp, "type": ok}
            if ok == "file":
                e["data"] = f"r{i}" if same else f"o{i}"
            elif ok == "sym":
                e["target"] = {"sym_file": name + ".tgt", "sym_dir": name + ".d", "sym_dangling": "nowhere"}.get(rk, "elsewhere")
            old.append(e)
            if list_dirs:
                old_dirs.update(_parents(lp))
        if nk != "none":
            lp = lexical(d, ali_new) + "/" + name
            e = {"path": lp, "type": nk}
            if nk == "file":
                e["data"] = f"n{i}"
            elif nk == "sym":
                e["target"] = draw(st.sampled_from(["newtarget", name + ".tgt", "/" + dirs[0]]))
            new.append(e)
            new_dirs.update(_parents(lp))

    for d in dirs:
        if on_disk[d]:
            for q in _parents(d):
                on_disk[q] = True
    # extra recorded directories (empty or not), unrecorded content
    for d in dirs:
        if draw(st.integers(0, 9)) < 6:
            old_dirs.add(lexical(d, draw(st.integers(0, 3))))
        if on_disk[d] and draw(st.integers(0, 9)) < 3:
            root.append({"path": d + "/unrecorded", "type": "file", "data": "u"})
    rootdirs = [{"path": d, "type": "dir"} for d in dirs if on_disk[d]]
    rootalias = []
    for a, (tgt, phys) in sorted(aliases.items()):
        if on_disk[phys] and all(on_disk[q] for q in _parents(a)):
            rootalias.append({"path": a, "type": "sym", "target": tgt})
    # a new image directory can only be merged where the live entry is a directory (or alias) or absent
    case = {
        "mode": mode, "chroot": chroot,
        "root": rootdirs + rootalias + root,
        "old": [{"path": d, "type": "dir"} for d in sorted(old_dirs)] + old,
        "new": ([{"path": d, "type": "dir"} for d in sorted(new_dirs)] + new) if mode == "replace" else [],
    }
    return case


# ---------------------------------------------------------------------------------------------

_F = ("type", "mode", "uid", "gid", "sha", "target", "rdev")


def same_entry(a, b):
    if a is None or b is None:
        return a is b
    for f in _F:
        if a.get(f) != b.get(f):
            return False
    if a["type"] != "dir" and a.get("mtime_ns") != b.get("mtime_ns"):
        return False
    return True


def _mat(target, absprefix):
    return absprefix + target if target.startswith("/") else target


def alias_shape(t, path):
    """(symlinks followed while resolving the parent components of `path`, number of components below
    the first symlinked component) -- (0, 0) when no parent component is a symlink"""
    comps = path.split("/")
    hops = below = 0
    for i in range(1, len(comps)):
        q = t.resolve("/".join(comps[:i]))
        n = 0
        while q is not None and t.snap.get(q, {}).get("type") == "sym" and n < 8:
            n += 1
            tgt = t.snap[q]["target"]
            if tgt.startswith("/"):
                rel = t._abs_to_rel(tgt)
                cand = None if rel is None else "/".join(rel)
            else:
                base = q.rsplit("/", 1)[0] if "/" in q else ""
                cand = (base + "/" if base else "") + tgt
            q = None if cand is None else t.resolve(cand)
        if n:
            if not hops:
                below = len(comps) - i
            hops += n
    return hops, below


def classify(case, t0):
    """classes from the case and the initial snapshot tree (harness side only)"""
    cl = [case["mode"], "chroot" if case["chroot"] else "offset"]
    s0 = t0.snap
    live_listed = 0
    newphys = {t0.resolve(e["path"]) for e in case["new"]}
    newby = {}
    for e in case["new"]:
        newby.setdefault(t0.resolve(e["path"]), e)
    for e in case["old"]:
        q = t0.resolve(e["path"])
        if q is None or (q and q not in s0):
            cl.append("listed_missing_on_disk")
            continue
        live_listed += 1
        ent = s0.get(q if q else ".")
        if q != e["path"]:
            cl.append("via_symlinked_dir")
            hops, below = alias_shape(t0, e["path"])
            cl.append("via_alias_depth1" if below <= 1 else "via_alias_depth2plus")
            if hops > 1:
                cl.append("via_alias_multi_hop")
        if e["type"] != "dir" and q in newby and newby[q]["type"] != "dir" and newby[q]["path"] != e["path"]:
            cl.append("shared_respelled")
            deep = max(alias_shape(t0, e["path"])[1], alias_shape(t0, newby[q]["path"])[1])
            cl.append("shared_respelled_depth1" if deep <= 1 else "shared_respelled_depth2plus")
        if e["path"] in BASE:
            cl.append("base_dir_listed")
            if not t0.children(q) and ent["type"] == "dir":
                cl.append("base_dir_listed_empty")
        if ent["type"] == "sym" and e["type"] != "dir":
            tq = t0.resolve(e["path"], follow_last=True)
            if tq is not None and (tq == "" or tq in s0) and tq != q:
                cl.append("listed_symlink_target_exists")
                if s0.get(tq if tq else ".")["type"] == "dir":
                    cl.append("listed_symlink_to_dir")
            else:
                cl.append("listed_symlink_dangling")
        if (e["type"] == "dir") != (ent["type"] == "dir"):
            cl.append("type_mismatch")
        if e["type"] == "dir" and ent["type"] == "dir":
            listed = {t0.resolve(x["path"]) for x in case["old"]}
            if any(c not in listed for c in t0.children(q)):
                cl.append("listed_dir_nonempty")
        if q in newphys:
            cl.append("shared_old_new")
            if e["type"] != "dir":
                cl.append("shared_nondir")
    interesting = {"via_symlinked_dir", "shared_respelled", "base_dir_listed", "listed_symlink_target_exists", "listed_dir_nonempty",
                   "shared_nondir", "type_mismatch"}
    cl = sorted(set(cl))
    return cl, bool(live_listed) and bool(interesting & set(cl))


def oracle_merge_phase(ctx, case, s0, mid, absprefix, where):
    t0, tm = Tree(s0, absprefix), Tree(mid, absprefix)
    ok = True
    physn = set()
    for e in case["new"]:
        for t in (t0, tm):
            for fl in (False, True):
                q = t.resolve(e["path"], follow_last=fl)
                if q is not None:
                    physn.add(q)
        q = tm.resolve(e["path"], follow_last=(e["type"] == "dir"))
        ent = None if q is None else tm.get(q)
        good = ent is not None and ent["type"] == e["type"]
        if good and e["type"] == "file":
            good = ent["sha"] == M.sha(e.get("data", ""))
        if good and e["type"] == "sym":
            good = ent["target"] == _mat(e["target"], absprefix)
        if not good:
            ok = False
            ctx.violation(f"merge-phase:new-entry-wrong:{e['type']}", case,
                          f"after the merge phase {e['path']!r} is {ent and ent['type']} (resolved {q!r}), expected the new {e['type']}")
    for p in sorted(set(s0) | set(mid)):
        if p == "." or p in physn:
            continue
        if not same_entry(s0.get(p), mid.get(p)):
            ok = False
            ctx.violation(f"merge-phase:frame:{where}", case, f"merge touched {p!r} which the new package does not contain: "
                          f"{_brief(s0.get(p))} -> {_brief(mid.get(p))}")
    return ok


def _brief(e):
    if e is None:
        return "absent"
    return {k: e.get(k) for k in ("type", "mode", "sha", "target") if e.get(k) is not None}


def oracle_unmerge(ctx, case, sa, sb, absprefix):
    mode = case["mode"]
    where = "root" if case["chroot"] else "offset"
    ta, tb = Tree(sa, absprefix), Tree(sb, absprefix)
    old = case["old"]
    new = case["new"] if mode == "replace" else []
    physl = {}
    for e in old:
        q = ta.resolve(e["path"])
        if q is not None and q != "":
            physl.setdefault(q, []).append(e)
    physk = {}
    for e in new:
        q = ta.resolve(e["path"])
        if q is not None:
            physk.setdefault(q, e)
        if e["type"] == "dir":
            q = ta.resolve(e["path"], follow_last=True)
            if q is not None:
                physk.setdefault(q, e)
    # where do recorded symlinks point (for root-cause naming of frame violations)
    link_targets = []
    for e in old:
        q = ta.resolve(e["path"])
        if q is not None and sa.get(q, {}).get("type") == "sym" and e["type"] != "dir":
            tq = ta.resolve(e["path"], follow_last=True)
            if tq is not None and tq != q:
                link_targets.append(tq)

    def below_link_target(p):
        return any(p == t or p.startswith(t + "/") for t in link_targets if t)

    for p in sorted(set(sa) | set(sb)):
        if p == ".":
            continue
        a, b = sa.get(p), sb.get(p)
        if p in physk:
            if not same_entry(a, b):
                via = physk[p]["path"] != p or any(e["path"] != p for e in physl.get(p, ()))
                ctx.violation(f"replace:new-entry-{'removed' if b is None else 'changed'}:{'via-symlinked-dir' if via else 'same-path'}",
                              case, f"{p!r} belongs to the new package but the unmerge phase turned it from {_brief(a)} into {_brief(b)}")
            continue
        if p in physl:
            if b is not None and not same_entry(a, b):
                ctx.violation("listed-entry-modified", case, f"{p!r}: {_brief(a)} -> {_brief(b)}")
            continue
        if same_entry(a, b):
            continue
        if a is None:
            ctx.violation(f"frame:added:{mode}", case, f"unmerge created {p!r}: {_brief(b)}")
        elif below_link_target(p):
            ctx.violation(f"followed-symlink:{'removed' if b is None else 'changed'}", case,
                          f"{p!r} is (below) the target of a recorded symlink and is not recorded itself: {_brief(a)} -> {_brief(b)}")
        else:
            ctx.violation(f"frame:unlisted-{'removed' if b is None else 'changed'}:{mode}:{where}", case,
                          f"{p!r} is not recorded for the package: {_brief(a)} -> {_brief(b)}")
    for bdir in BASE:
        if bdir in sa and not same_entry(sa[bdir], sb.get(bdir)):
            ctx.violation(f"base-dir-removed:{where}", case, f"protected {bdir!r}: {_brief(sa[bdir])} -> {_brief(sb.get(bdir))}")

    # must-go
    recorded_links = set()
    for o2 in old:
        q2 = ta.resolve(o2["path"])
        if q2 is not None and sa.get(q2, {}).get("type") == "sym":
            recorded_links.add(q2)
    must_go = set()
    simple = True
    for e in old:
        q = ta.resolve(e["path"])
        if q != e["path"]:
            simple = False
        ent = None if q is None else sa.get(q)
        if ent is not None and (ent["type"] == "dir") != (e["type"] == "dir"):
            simple = False
        if e["type"] == "dir" or e["path"] in BASE or ent is None or ent["type"] == "dir" or q in physk:
            continue
        # a recorded entry that is a symlink on disk and lies on the way to this one (lexical ancestor
        # or a link of a chain) may be unlinked first; then only the lexical path is judged
        followed = []
        ta.resolve(e["path"], trace=followed)
        ambiguous = bool(set(followed) & recorded_links)
        gone = (not tb.lexists(e["path"])) if ambiguous else (q not in sb)
        if gone:
            must_go.add(q)
        else:
            ctx.violation(f"not-removed:{mode}:{where}" + (":via-symlinked-dir" if q != e["path"] else ""), case,
                          f"recorded {e['type']} {e['path']!r} (on disk {ent['type']} at {q!r}) is still there after the unmerge")
    if simple:
        alive = set(sa) - must_go
        cand = [e["path"] for e in old if e["type"] == "dir" and e["path"] not in BASE and e["path"] not in physk
                and sa.get(e["path"], {}).get("type") == "dir"]
        for d in sorted(set(cand), key=lambda x: (-x.count("/"), x)):
            if not any(p.startswith(d + "/") for p in alive):
                alive.discard(d)
        for d in sorted(set(cand)):
            if d not in alive and d in sb:
                ctx.violation(f"empty-listed-dir-left:{mode}:{where}", case,
                              f"recorded directory {d!r} has nothing left in it but was not removed")


def normalise(case):
    """the image scan lists every parent directory of a new entry; make the case say so too
    (matters after shrinking removed directory entries)"""
    have = {e["path"] for e in case["new"]}
    miss = sorted({d for e in case["new"] for d in _parents(e["path"])} - have)
    if not miss:
        return case
    return dict(case, new=[{"path": d, "type": "dir"} for d in miss] + list(case["new"]))


def evaluate(ctx, case, record=True):
    case = normalise(case)
    res = M.run_case(ctx, case, TRIGGERS)
    absprefix = res["absprefix"]
    snaps = res["snaps"]
    s0 = snaps["s0"]
    if record:
        cl, nontriv = classify(case, Tree(s0, absprefix))
        ctx.case(case, nontrivial=nontriv, classes=cl)
    if res["error"]:
        ctx.violation(res["error"]["bucket"] + ":" + res["error"]["phase"], case, res["error"]["msg"])
        return
    for w in res["warn"]:
        if "unhandled exception" in w:
            ctx.violation("suppressed-exception:" + w.strip().splitlines()[-1].split(":")[0], case, w)
    if case["mode"] == "replace":
        mid = snaps["mid"]
        where = "root" if case["chroot"] else "offset"
        if not oracle_merge_phase(ctx, case, s0, mid, absprefix, where):
            return
        oracle_unmerge(ctx, case, mid, snaps["s1"], absprefix)
    else:
        oracle_unmerge(ctx, case, s0, snaps["s1"], absprefix)


def plan(tier, seed):
    if tier == "quick":
        return [{"task": "hyp", "examples": 300} for _ in range(16)]
    return [{"task": "hyp", "examples": 3000} for _ in range(32)]


def run_task(ctx, task, **kw):
    if task != "hyp":
        raise core.HarnessError(f"unknown task {task}")
    try:
        M.warm_up(ctx)
        core.hyp_run(ctx, cases(), lambda c: evaluate(ctx, c), kw["examples"], chunk=50)
    finally:
        M.cleanup()


def replay(ctx, case):
    try:
        M.warm_up(ctx)
        evaluate(ctx, case)
    finally:
        M.cleanup()


def shrink_case(ctx, bucket, case):
    """greedy entry removal keeping the bucket"""
    M.warm_up(ctx)

    def hits(c):
        sub = core.Ctx(ID, ctx.tier, ctx.seed)
        try:
            evaluate(sub, c, record=False)
        except core.HarnessError:
            return False
        return bucket in sub.violations

    try:
        cur = copy.deepcopy(case)
        if not hits(cur):
            return None
        changed = True
        while changed:
            changed = False
            for part in ("new", "old", "root"):
                i = 0
                while i < len(cur[part]):
                    cand = copy.deepcopy(cur)
                    del cand[part][i]
                    if hits(cand):
                        cur = cand
                        changed = True
                    else:
                        i += 1
        return cur
    finally:
        M.cleanup()
