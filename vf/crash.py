"""Fork-based crash-point / fault injector built on sys.addaudithook.

An *operation* is a zero-argument closure that mutates files below one or more scratch roots.
Every Python-visible mutating filesystem step it performs below those roots is an *event*:

    open (write/create/trunc/append flags), os.rename/replace, os.remove/unlink, os.rmdir, os.mkdir,
    os.link, os.symlink, os.chmod, os.chown, os.utime, os.truncate, os.mkfifo, os.mknod,
    subprocess.Popen / os.system / os.posix_spawn mentioning a root (one event for the whole subprocess)

    dry_run(op, roots)            -> Result with .events (the log), run to completion in a forked child
    inject(op, roots, k, mode)    -> Result; the child is stopped / faulted at event k (1-based)

modes:
    "before"  the process dies (os._exit) immediately before event k is performed
    "after"   the process dies immediately after event k returned, before any further Python-level step
              (for an open(..., 'w') this is the "file created/truncated, nothing written" state)
    "eio"     event k fails with OSError(EIO); the code's own error handling then runs to completion

Audit hooks cannot be removed, hence everything runs in a forked child; the parent inspects the
tree afterwards. os._exit drops Python-buffered file data, which is the pessimistic-but-legal crash
outcome (data in user-space buffers is lost when a process dies).

Granularity caveat: a spawned subprocess is a single event; block-level torn writes are not modelled.
"""

from __future__ import annotations

import errno
import json
import os
import sys
import traceback

EXIT_CRASH = 97
EXIT_RAISED = 3
EXIT_OK = 0
CHILD_TIMEOUT = 180

_WRITE_FLAGS = os.O_WRONLY | os.O_RDWR | os.O_CREAT | os.O_TRUNC | os.O_APPEND

_PATH_EVENTS = {
    # event -> (indices of path args, index of dir_fd(s) or None)
    "os.rename": ((0, 1), (2, 3)),
    "os.remove": ((0,), (1,)),
    "os.rmdir": ((0,), (1,)),
    "os.mkdir": ((0,), (2,)),
    "os.link": ((0, 1), (2, 3)),
    "os.symlink": ((1,), (2,)),  # arg0 is the link *content*
    "os.chmod": ((0,), (2,)),
    "os.chown": ((0,), (3,)),
    "os.utime": ((0,), (3,)),
    "os.truncate": ((0,), None),
    "vf.mkfifo": ((0,), None),
    "vf.mknod": ((0,), None),
}
_PROC_EVENTS = ("subprocess.Popen", "os.system", "os.posix_spawn", "os.exec")


class Result:
    def __init__(self, status, events, exc=None, code=None):
        self.status = status  # "completed" | "crashed" | "raised" | "not-reached" | "died"
        self.events = events  # list of dicts (the log up to the stop point)
        self.exc = exc  # text of the exception for "raised"
        self.code = code

    def __repr__(self):
        return f"<Result {self.status} events={len(self.events)} exc={self.exc!r}>"


def _fd_path(fd):
    try:
        return os.readlink(f"/proc/self/fd/{fd}")
    except OSError:
        return None


def _abs(p, dir_fd=None):
    if isinstance(p, int):
        return _fd_path(p)
    try:
        p = os.fspath(p)
    except TypeError:
        return None
    if isinstance(p, bytes):
        p = os.fsdecode(p)
    if not os.path.isabs(p):
        base = None
        if isinstance(dir_fd, int) and dir_fd >= 0:
            base = _fd_path(dir_fd)
        if base is None:
            try:
                base = os.getcwd()
            except OSError:
                base = "/"
        p = os.path.join(base, p)
    return os.path.normpath(p)


class _Hook:
    def __init__(self, roots, k, mode, logfd):
        self.roots = [os.path.realpath(r) for r in roots]
        self.k = k
        self.mode = mode
        self.logfd = logfd
        self.n = 0
        self.active = True
        self.busy = False

    def under(self, p):
        if p is None:
            return False
        for r in self.roots:
            if p == r or p.startswith(r + "/"):
                return True
        return False

    def rel(self, p):
        for r in self.roots:
            if p == r:
                return "."
            if p.startswith(r + "/"):
                return p[len(r) + 1 :]
        return p

    def __call__(self, event, args):
        if not self.active or self.busy:
            return
        rec = None
        if event == "open":
            path, mode, flags = args[0], args[1], args[2]
            if isinstance(path, int) or not (flags & _WRITE_FLAGS):
                return
            p = _abs(path)
            if not self.under(p):
                return
            rec = {"ev": "open", "path": self.rel(p), "flags": flags & (os.O_CREAT | os.O_TRUNC | os.O_APPEND | os.O_EXCL | 3)}
        elif event in _PATH_EVENTS:
            idxs, dfi = _PATH_EVENTS[event]
            ps = []
            for j, i in enumerate(idxs):
                if i >= len(args):
                    continue
                dfd = None
                if dfi is not None and j < len(dfi) and dfi[j] < len(args):
                    dfd = args[dfi[j]]
                ps.append(_abs(args[i], dfd))
            if not any(self.under(p) for p in ps):
                return
            rec = {"ev": event, "path": self.rel(ps[0]) if ps[0] else None}
            if len(ps) > 1:
                rec["path2"] = self.rel(ps[1]) if ps[1] else None
            if event == "os.symlink":
                rec["target"] = os.fsdecode(args[0]) if isinstance(args[0], (bytes, str)) else repr(args[0])
            if event == "os.chmod":
                rec["mode"] = args[1]
        elif event in _PROC_EVENTS:
            text = repr(args)
            if not any(r in text for r in self.roots):
                return
            rec = {"ev": event, "path": None, "argv": text[:300]}
        else:
            return
        self.n += 1
        rec["k"] = self.n
        self.busy = True
        try:
            os.write(self.logfd, (json.dumps(rec) + "\n").encode())
        finally:
            self.busy = False
        if self.k is not None and self.n == self.k:
            if self.mode == "before":
                os._exit(EXIT_CRASH)
            elif self.mode == "after":
                self.active = False

                def _die(frame, ev, arg):
                    os._exit(EXIT_CRASH)

                sys.setprofile(_die)
            elif self.mode == "eio":
                self.active = False  # single fault
                raise OSError(errno.EIO, "injected I/O error (vf.crash)")


def _run_child(op, roots, k, mode, wfd):
    hook = _Hook(roots, k, mode, wfd)
    # os.mkfifo / os.mknod raise no audit events: route them through the hook
    _mkfifo, _mknod = os.mkfifo, os.mknod

    def mkfifo(path, *a, **kw):
        hook("vf.mkfifo", (path,))
        return _mkfifo(path, *a, **kw)

    def mknod(path, *a, **kw):
        hook("vf.mknod", (path,))
        return _mknod(path, *a, **kw)

    os.mkfifo, os.mknod = mkfifo, mknod
    sys.addaudithook(hook)
    try:
        op()
    except BaseException as e:  # noqa: BLE001
        hook.active = False
        sys.setprofile(None)
        msg = {"exc": f"{type(e).__name__}: {e}", "tb": traceback.format_exc()[-1500:]}
        os.write(wfd, ("!" + json.dumps(msg) + "\n").encode())
        os._exit(EXIT_RAISED)
    hook.active = False
    sys.setprofile(None)
    os._exit(EXIT_OK)


def _fork_run(op, roots, k, mode):
    rfd, wfd = os.pipe()
    sys.stdout.flush()
    sys.stderr.flush()
    pid = os.fork()
    if pid == 0:
        os.close(rfd)
        import signal

        signal.signal(signal.SIGALRM, signal.SIG_DFL)
        signal.alarm(CHILD_TIMEOUT)  # a hung child dies with SIGALRM -> status "died"
        try:
            _run_child(op, roots, k, mode, wfd)
        finally:
            os._exit(98)
    os.close(wfd)
    chunks = []
    while True:
        b = os.read(rfd, 65536)
        if not b:
            break
        chunks.append(b)
    os.close(rfd)
    _, st = os.waitpid(pid, 0)
    code = os.waitstatus_to_exitcode(st)
    events, exc = [], None
    for line in b"".join(chunks).decode("utf8", "replace").splitlines():
        if line.startswith("!"):
            exc = json.loads(line[1:])
        elif line:
            events.append(json.loads(line))
    if code == EXIT_OK:
        status = "completed"
        if k is not None and len(events) < k:
            status = "not-reached"
    elif code == EXIT_CRASH:
        status = "crashed"
    elif code == EXIT_RAISED:
        status = "raised"
    else:
        status = "died"
    return Result(status, events, exc["exc"] if exc else None, code)


def dry_run(op, roots) -> Result:
    """run `op` to completion in a forked child, logging all mutating events below `roots`"""
    return _fork_run(op, list(roots), None, None)


def inject(op, roots, k, mode) -> Result:
    assert mode in ("before", "after", "eio")
    return _fork_run(op, list(roots), k, mode)


def is_open_write(ev) -> bool:
    return ev.get("ev") == "open"


def points(events, modes=("before", "after", "eio")):
    """the (k, mode) injection points worth running for an event log: 'before' and 'eio' for every
    event, 'after' for opens (empty-file state), subprocesses and name-publishing events
    (rename/link/symlink: the process dies with its user-space write buffers unflushed)"""
    out = []
    for ev in events:
        k = ev["k"]
        for m in modes:
            # 'after' adds information where the state right after the event differs from the state
            # right before the next one: opens (empty file), subprocesses, and events that publish a
            # name (rename/link/symlink) while Python-buffered data may still be unflushed
            if m == "after" and not (ev["ev"] in ("open", "os.rename", "os.link", "os.symlink") or ev["ev"] in _PROC_EVENTS):
                continue
            out.append((k, m))
    if "before" in modes:
        pass
    return out
