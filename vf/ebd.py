"""Helpers for checks that drive the real bash ebuild daemon (ebd) and bash-as-oracle.

    repo_root()                   -> $VERIF_REPO (default /repo); the tree under test
    ensure_generated(force=False) -> (re)build data/lib/pkgcore/ebd/.generated (needed by the daemon;
                                     git-ignored). force=True re-runs `make -B` so edits to the bash
                                     sources / EAPI tables are picked up.
    spawn()                       -> a fresh pkgcore EbuildProcessor (real bash daemon, ~60 ms)
    kill(ebp)                     -> terminate it (whole process group), never raises
    Session(ebp)                  -> context manager: `process_ebuild nofetch` phase session in which
                                     send_env() may be used and shell state can be observed
    bash_eval(script, ...)        -> run an independent /bin/bash (ground-truth oracle)

All blocking reads are bounded by alarms (default 20 s) -> EbdHang (harness decides what it means).
"""
from __future__ import annotations

import os
import signal
import subprocess

from . import core


class EbdHang(Exception):
    pass


def repo_root():
    return os.environ.get("VERIF_REPO", "/repo")


def ebd_dir():
    return os.path.join(repo_root(), "data", "lib", "pkgcore", "ebd")


def ensure_generated(force=False):
    d = ebd_dir()
    if not force and os.path.isdir(os.path.join(d, ".generated", "libs")):
        return
    cmd = ["make", "-s", "-C", d, "PYTHON=/venv/bin/python", f"PYTHONPATH={repo_root()}/src"]
    if force:
        cmd.insert(1, "-B")
    r = subprocess.run(cmd, capture_output=True, text=True, timeout=300)
    if r.returncode != 0:
        raise core.HarnessError(f"cannot build ebd .generated: {r.stderr[-500:]}")


class _Alarm:
    def __init__(self, seconds, what="daemon read"):
        self.s = seconds
        self.what = what

    def _fire(self, *a):
        raise EbdHang(f"timeout after {self.s}s waiting for {self.what}")

    def __enter__(self):
        self.old = signal.signal(signal.SIGALRM, self._fire)
        signal.setitimer(signal.ITIMER_REAL, self.s)

    def __exit__(self, *a):
        signal.setitimer(signal.ITIMER_REAL, 0)
        signal.signal(signal.SIGALRM, self.old)
        return False


def alarm(seconds, what="daemon read"):
    """context manager raising EbdHang if the body blocks longer than `seconds` (main thread only)"""
    return _Alarm(seconds, what)


def spawn():
    ensure_generated()
    from pkgcore.ebuild import processor

    with alarm(30, "daemon startup"):
        return processor.EbuildProcessor(userpriv=False, sandbox=False)


def kill(ebp):
    try:
        pid = ebp.pid
        if pid:
            try:
                os.killpg(pid, signal.SIGKILL)
            except OSError:
                pass
            try:
                os.waitpid(pid, 0)
            except OSError:
                pass
        ebp.pid = None
        for f in (ebp.ebd_write, ebp.ebd_read):
            try:
                f.close()
            except Exception:  # noqa: BLE001
                pass
    except Exception:  # noqa: BLE001
        pass


class Session:
    """`process_ebuild nofetch` session. Inside, the daemon sits in its phase loop and accepts
    start_receiving_env / alive / shutdown_daemon etc.; `run_code` makes the daemon's phase shell
    eval harness-written bash (sent as an env chunk with an exact *byte* count), which is how shell
    state is observed without touching pkgcore's own transfer code."""

    def __init__(self, ebp, timeout=20):
        self.ebp = ebp
        self.timeout = timeout

    def __enter__(self):
        self.ebp.write("process_ebuild nofetch")
        return self

    def run_code(self, code: str) -> bool:
        data = code.encode("utf8")
        with alarm(self.timeout, "env_received after harness chunk"):
            self.ebp.ebd_write.flush()
            # write the header + payload with an exact byte count, bypassing send_env
            self.ebp.write(f"start_receiving_env bytes {len(data)}\n{code}", append_newline=False)
            return self.ebp.expect("env_received", flush=True)

    def alive(self) -> bool:
        with alarm(self.timeout, "alive reply"):
            self.ebp.write("alive")
            return self.ebp.expect("yep!", flush=True)

    def close(self) -> bool:
        """leave the phase loop; the main loop answers 'phases succeeded' and the daemon is reusable"""
        with alarm(self.timeout, "phases succeeded"):
            self.ebp.write("shutdown_daemon")
            return self.ebp.expect("phases succeeded", flush=True)

    def __exit__(self, et, ev, tb):
        if et is None:
            try:
                self.close()
            except Exception:  # noqa: BLE001
                kill(self.ebp)
        return False


def bash_eval(script: str, stdin: bytes | None = None, timeout=60, env=None, cwd=None):
    """run an independent bash on `script`; returns CompletedProcess (bytes stdout/stderr)"""
    e = {"PATH": "/usr/sbin:/usr/bin:/sbin:/bin", "LC_ALL": "C"}
    if env:
        e.update(env)
    return subprocess.run(["/bin/bash", "--norc", "--noprofile", "-c", script], input=stdin,
                          capture_output=True, timeout=timeout, env=e, cwd=cwd)
