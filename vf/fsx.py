"""Filesystem snapshots and diffs (lstat-level, never following symlinks).

snapshot(root) -> {relpath: Entry-dict}; relpath "." is the root itself.
Entry keys: type (file|dir|sym|fifo|chr|blk|sock), mode (permission+special bits), uid, gid,
mtime (int seconds), mtime_ns, size, sha (files: blake2b of content), target (symlinks),
ino (dev, inode) for non-directories with nlink > 1 else None, rdev for devices.
"""
import hashlib
import os
import stat

_TYPES = [(stat.S_ISREG, "file"), (stat.S_ISDIR, "dir"), (stat.S_ISLNK, "sym"), (stat.S_ISFIFO, "fifo"),
          (stat.S_ISCHR, "chr"), (stat.S_ISBLK, "blk"), (stat.S_ISSOCK, "sock")]


def entry(path, data=True):
    st = os.lstat(path)
    t = next(n for f, n in _TYPES if f(st.st_mode))
    e = {"type": t, "mode": stat.S_IMODE(st.st_mode), "uid": st.st_uid, "gid": st.st_gid,
         "mtime": int(st.st_mtime), "mtime_ns": st.st_mtime_ns, "size": st.st_size if t == "file" else None,
         "ino": (st.st_dev, st.st_ino) if (t != "dir" and st.st_nlink > 1) else None, "nlink": st.st_nlink}
    if t == "file" and data:
        h = hashlib.blake2b(digest_size=16)
        with open(path, "rb") as f:
            for chunk in iter(lambda: f.read(1 << 16), b""):
                h.update(chunk)
        e["sha"] = h.hexdigest()
    elif t == "sym":
        e["target"] = os.readlink(path)
    elif t in ("chr", "blk"):
        e["rdev"] = (os.major(st.st_rdev), os.minor(st.st_rdev))
    return e


def snapshot(root, data=True):
    out = {".": entry(root, data)}
    stack = [root]
    while stack:
        d = stack.pop()
        try:
            names = sorted(os.listdir(d))
        except OSError:
            continue
        for n in names:
            p = os.path.join(d, n)
            rel = os.path.relpath(p, root)
            e = entry(p, data)
            out[rel] = e
            if e["type"] == "dir":
                stack.append(p)
    return out


def diff(a, b, fields=("type", "mode", "uid", "gid", "mtime", "sha", "target", "rdev"), ignore=()):
    """list of (relpath, kind, before, after); kind in added/removed/changed:<fields>.
    `ignore`: callable(relpath)->bool or iterable of relpaths to skip."""
    ign = ignore if callable(ignore) else (lambda p, s=set(ignore): p in s)
    out = []
    for p in sorted(set(a) | set(b)):
        if ign(p):
            continue
        x, y = a.get(p), b.get(p)
        if x is None:
            out.append((p, "added", None, y))
        elif y is None:
            out.append((p, "removed", x, None))
        else:
            ch = [f for f in fields if x.get(f) != y.get(f)]
            if ch:
                out.append((p, "changed:" + ",".join(ch), x, y))
    return out


def inode_groups(snap):
    """{(dev,ino): sorted [relpaths]} for hardlinked non-directories"""
    g = {}
    for p, e in snap.items():
        if e.get("ino"):
            g.setdefault(tuple(e["ino"]), []).append(p)
    return {k: sorted(v) for k, v in g.items() if len(v) > 1}


def build(root, spec):
    """materialise a tree spec under root. spec: list of dicts in creation order:
      {"path": "a/b", "type": "dir"|"file"|"sym"|"fifo"|"hardlink", "mode": int, "uid": int, "gid": int,
       "mtime": int, "data": str (latin-1 text) , "target": str, "to": relpath (hardlink source)}
    parents are created as needed (mode 0o755)."""
    for e in spec:
        p = os.path.join(root, e["path"])
        os.makedirs(os.path.dirname(p), exist_ok=True)
        t = e["type"]
        if t == "dir":
            os.makedirs(p, exist_ok=True)
        elif t == "file":
            with open(p, "wb") as f:
                f.write(e.get("data", "").encode("latin-1"))
        elif t == "sym":
            os.symlink(e["target"], p)
        elif t == "fifo":
            os.mkfifo(p)
        elif t == "hardlink":
            os.link(os.path.join(root, e["to"]), p)
            continue
        else:
            raise ValueError(t)
        if "uid" in e or "gid" in e:
            os.lchown(p, e.get("uid", -1), e.get("gid", -1))
        if t != "sym" and "mode" in e:
            os.chmod(p, e["mode"])
        if "mtime" in e:
            os.utime(p, (e["mtime"], e["mtime"]), follow_symlinks=False)
    # directory mtimes are disturbed by child creation: apply them last, deepest first
    for e in sorted((e for e in spec if e["type"] == "dir" and "mtime" in e), key=lambda e: -e["path"].count("/")):
        p = os.path.join(root, e["path"])
        os.utime(p, (e["mtime"], e["mtime"]))
