"""Shared machinery: case recording, classification counters, violation buckets,
hypothesis driving (collect-then-shrink), replay I/O.

A property module (vf/props/cNN.py) defines:

    ID, TITLE, LEVEL, TECHNIQUE, RULE, ASSUMPTIONS, LEVEL_TEXT, LEVEL_NOTE, DESIGN_REF
    def plan(tier, seed) -> list[dict]     # tasks; each dict has "task": name + kwargs (JSON-able)
    def run_task(ctx, task, **kw)          # executed in a forked worker; uses ctx.case/ctx.violation
    def replay(ctx, case)                  # re-run ONE saved case through the same oracle (no hypothesis)

Everything a module records goes through `Ctx`, which the runner merges over shards.
"""

from __future__ import annotations

import hashlib
import json
import os
import shutil
import sys
import tempfile
import time
import traceback
from collections import Counter

MAX_KEYS = 400_000  # cap for the distinct-nontrivial hash set per shard
SAMPLES_PER_CLASS = 2
MAX_SAMPLES = 24


def jdump(obj) -> str:
    return json.dumps(obj, sort_keys=True, ensure_ascii=True, default=_json_default)


def _json_default(o):
    if isinstance(o, (set, frozenset)):
        return sorted(o, key=repr)
    if isinstance(o, bytes):
        return {"__bytes__": o.hex()}
    if isinstance(o, tuple):
        return list(o)
    return repr(o)


def jbytes(o):
    """inverse of the bytes encoding used in replay files"""
    if isinstance(o, dict) and set(o) == {"__bytes__"}:
        return bytes.fromhex(o["__bytes__"])
    return o


def h64(s: str) -> int:
    return int.from_bytes(hashlib.blake2b(s.encode("utf8", "surrogatepass"), digest_size=8).digest(), "big")


class HarnessError(Exception):
    """raised for problems of the harness itself (exit code 2, never a violation)"""


class Ctx:
    def __init__(self, pid, tier, seed, shard=0, nshards=1, deadline=None, scratch_root=None):
        self.pid = pid
        self.tier = tier
        self.seed = seed
        self.shard = shard
        self.nshards = nshards
        self.deadline = deadline
        self.evaluations = 0
        self.keys = set()
        self.keys_capped = False
        self.classes = Counter()
        self.samples = []
        self._sample_classes = Counter()
        self.violations = {}  # bucket -> dict(case, msg, size, count)
        self.notes = {}
        self.counters = Counter()
        self.budget_hit = False
        self._scratch_root = scratch_root
        self._scratch = None
        self._ckpt_path = None
        self._last_ckpt = time.time()

    # ---- scratch -----------------------------------------------------------
    @property
    def scratch(self) -> str:
        if self._scratch is None:
            root = self._scratch_root or os.environ.get("VERIF_SCRATCH") or "/var/tmp"
            os.makedirs(root, exist_ok=True)
            self._scratch = tempfile.mkdtemp(prefix=f"vf-{self.pid}-{os.getpid()}-", dir=root)
        return self._scratch

    def fresh_dir(self, name="d") -> str:
        return tempfile.mkdtemp(prefix=name + "-", dir=self.scratch)

    def cleanup(self):
        if self._scratch is not None:
            shutil.rmtree(self._scratch, ignore_errors=True)
            self._scratch = None

    # ---- recording ---------------------------------------------------------
    def out_of_time(self) -> bool:
        if self.deadline is not None and time.time() > self.deadline:
            self.budget_hit = True
            return True
        return False

    def case(self, case, nontrivial=False, classes=(), key=None, n=1):
        """record one oracle evaluation. `key` (str) identifies the case for the distinct count
        (default: canonical JSON of the case)."""
        self.evaluations += n
        if self._ckpt_path is not None and time.time() - self._last_ckpt > 5:
            self.checkpoint()
        for c in classes:
            self.classes[c] += 1
        if nontrivial:
            self.classes["nontrivial"] += 1
            if len(self.keys) < MAX_KEYS:
                self.keys.add(h64(key if key is not None else jdump(case)))
            else:
                self.keys_capped = True
        # keep a few samples: first ones of each class
        take = False
        for c in list(classes) + (["nontrivial"] if nontrivial else ["trivial"]):
            if self._sample_classes[c] < SAMPLES_PER_CLASS:
                self._sample_classes[c] += 1
                take = True
        if take and len(self.samples) < MAX_SAMPLES:
            self.samples.append({"classes": sorted(classes), "nontrivial": bool(nontrivial), "case": case})

    def count(self, name, n=1):
        self.counters[name] += n

    def violation(self, bucket, case, msg):
        size = len(jdump(case))
        cur = self.violations.get(bucket)
        if cur is None:
            self.violations[bucket] = {"case": case, "msg": msg, "size": size, "count": 1}
        else:
            cur["count"] += 1
            if size < cur["size"]:
                cur.update(case=case, msg=msg, size=size)

    def note(self, k, v):
        self.notes[k] = v

    def checkpoint(self):
        """dump the results so far; the runner picks them up if this task has to be abandoned"""
        import pickle

        self._last_ckpt = time.time()
        try:
            tmp = self._ckpt_path + ".tmp"
            with open(tmp, "wb") as f:
                pickle.dump(self.result(), f)
            os.replace(tmp, self._ckpt_path)
        except OSError:
            pass

    # ---- result transport --------------------------------------------------
    def result(self):
        return {
            "evaluations": self.evaluations,
            "keys": self.keys,
            "keys_capped": self.keys_capped,
            "classes": dict(self.classes),
            "samples": self.samples,
            "violations": self.violations,
            "notes": self.notes,
            "counters": dict(self.counters),
            "budget_hit": self.budget_hit,
        }


def pkg_frame_bucket(exc, roots=("pkgcore", "snakeoil")) -> str | None:
    """bucket key `crash:<Type>@<module>:<func>` from the innermost frame that lies in the
    code under test; None if no such frame (then the exception is the harness' own)."""
    tb = traceback.extract_tb(exc.__traceback__)
    for fr in reversed(tb):
        fn = fr.filename.replace("\\", "/")
        for r in roots:
            marker = f"/{r}/"
            if marker in fn and "/vf/" not in fn:
                mod = fn.split(marker, 1)[1].rsplit(".", 1)[0]
                return f"crash:{type(exc).__name__}@{r}/{mod}:{fr.name}"
    return None


def guarded(ctx, case, fn, expected=()):
    """run fn(); exceptions of the `expected` types propagate to the caller (they are part of the
    contract and the caller decides); any other exception raised from inside the code under
    test is recorded as a violation bucket and None is returned; exceptions raised by the harness
    itself propagate (exit 2)."""
    try:
        return fn()
    except expected:
        raise
    except HarnessError:
        raise
    except Exception as e:  # noqa: BLE001
        b = pkg_frame_bucket(e)
        if b is None:
            raise
        ctx.violation(b, case, f"{type(e).__name__}: {e}")
        return _CRASHED


class _Crashed:
    def __bool__(self):
        return False

    def __repr__(self):
        return "<crashed>"


_CRASHED = _Crashed()


def crashed(x) -> bool:
    return x is _CRASHED


# ---- hypothesis driving ----------------------------------------------------

def hyp_settings(max_examples, shrink=False):
    from hypothesis import HealthCheck, Phase, settings

    phases = [Phase.generate] + ([Phase.shrink] if shrink else [])
    return settings(
        max_examples=max_examples,
        database=None,
        deadline=None,
        derandomize=False,
        report_multiple_bugs=False,
        suppress_health_check=list(HealthCheck),
        phases=phases,
        print_blob=False,
    )


def hyp_run(ctx, strategy, fn, examples, chunk=500, seed_salt=0):
    """Drive `fn(value)` with `examples` values of `strategy`; fn records cases/violations on ctx
    and must not raise for property violations (collect mode). Runs in chunks with derived
    seeds so that a wall-clock guard can stop generation between chunks."""
    import hypothesis
    from hypothesis import given

    done = 0
    i = 0
    while done < examples:
        if ctx.out_of_time():
            break
        n = min(chunk, examples - done)
        sd = (ctx.seed * 1_000_003 + ctx.shard * 10_007 + seed_salt * 101 + i) & 0xFFFFFFFF

        @hypothesis.seed(sd)
        @hyp_settings(n)
        @given(strategy)
        def _t(v):
            fn(v)

        _t()
        done += n
        i += 1
    return done


def hyp_shrink(strategy, predicate, seed, max_examples=2000):
    """Find (and shrink) a value of `strategy` satisfying `predicate`; returns None if not found
    within the budget. Used after collection to minimise one representative per bucket."""
    import hypothesis
    from hypothesis import given

    found = []

    @hypothesis.seed(seed & 0xFFFFFFFF)
    @hyp_settings(max_examples, shrink=True)
    @given(strategy)
    def _t(v):
        if predicate(v):
            found.append(v)
            raise AssertionError("hit")

    try:
        _t()
    except AssertionError:
        pass
    except Exception:  # noqa: BLE001  (flaky/other hypothesis errors: keep the unshrunk case)
        pass
    # hypothesis replays the minimal failing example last
    return found[-1] if found else None


# ---- replay files ----------------------------------------------------------

def load_replay(path):
    with open(path) as f:
        d = json.load(f)
    return d


def write_replay(dirpath, pid, bucket, info, seed, tier):
    os.makedirs(dirpath, exist_ok=True)
    safe = "".join(ch if ch.isalnum() or ch in "-_." else "_" for ch in bucket)[:80]
    body = {
        "property": pid,
        "bucket": bucket,
        "msg": info["msg"],
        "case": info["case"],
        "seed": seed,
        "tier": tier,
    }
    text = json.dumps(body, sort_keys=True, indent=1, default=_json_default)
    name = f"{safe}-{hashlib.blake2b(text.encode(), digest_size=4).hexdigest()}.json"
    p = os.path.join(dirpath, name)
    with open(p, "w") as f:
        f.write(text + "\n")
    return p
