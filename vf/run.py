"""CLI: python -m vf.run <ID> [--tier quick|thorough] [--seed N] [--replay FILE] [--jobs N]

exit 0: property held on everything explored (KNOWN-FINDING lines allowed)
exit 1: `VIOLATION property=<id> replay=<path>` printed for every unlisted violation bucket
exit 2: harness error (never a violation)
"""

from __future__ import annotations

import argparse
import fnmatch
import glob
import importlib
import json
import multiprocessing
import os
import sys
import time
import traceback
from collections import Counter

import logging

logging.getLogger("pkgcore").setLevel(logging.ERROR)

from . import core  # noqa: E402

HERE = os.path.dirname(os.path.dirname(os.path.abspath(__file__)))
_LEAKED_POOL = None
DEFAULT_BUDGET = {"quick": 50, "thorough": 900}


def load_module(pid):
    return importlib.import_module(f"vf.props.{pid.lower()}")


def load_known(pid):
    p = os.path.join(HERE, "known_findings.json")
    if not os.path.exists(p):
        return []
    with open(p) as f:
        data = json.load(f)
    return [e for e in data.get("findings", []) if e.get("property") == pid]


def _reset_signals():
    # importing pkgcore.ebuild.processor installs SIGTERM/SIGINT handlers that raise; pool workers
    # forked afterwards would survive Pool.terminate() and the run would never exit
    import signal

    signal.signal(signal.SIGTERM, signal.SIG_DFL)
    signal.signal(signal.SIGINT, signal.SIG_DFL)
    # own process group: if the task has to be abandoned, its forked children (crash-injection
    # children, helper subprocesses) are killed with it instead of lingering and holding our stdout
    try:
        os.setpgrp()
    except OSError:
        pass


def _ckpt_file(pid, shard):
    d = os.environ.get("VERIF_SCRATCH") or "/var/tmp"
    return os.path.join(d, f"vf-ckpt-{pid}-{os.getppid() if multiprocessing.parent_process() else os.getpid()}-{shard}.pkl")


def _worker(args):
    pid, tier, seed, shard, nshards, deadline, task = args
    mod = load_module(pid)
    ctx = core.Ctx(pid, tier, seed, shard, nshards, deadline)
    ctx._ckpt_path = _ckpt_file(pid, shard)
    t0 = time.time()
    try:
        if task.get("task") == "__replays__":
            for path in task["files"]:
                d = core.load_replay(path)
                before = set(ctx.violations)
                mod.replay(ctx, d["case"])
                ctx.count("replayed_files")
                for b in set(ctx.violations) - before:
                    ctx.violations[b]["from_replay"] = os.path.relpath(path, HERE)
        else:
            kw = {k: v for k, v in task.items() if k != "task"}
            mod.run_task(ctx, task["task"], **kw)
        res = ctx.result()
        res["task"] = task.get("task")
        res["wall"] = time.time() - t0
        return res
    except BaseException:  # noqa: BLE001
        return {"error": traceback.format_exc(), "task": task}
    finally:
        ctx.cleanup()
        try:
            os.unlink(ctx._ckpt_path)
        except OSError:
            pass


def merge(results):
    tot = {
        "evaluations": 0,
        "keys": set(),
        "keys_capped": False,
        "classes": Counter(),
        "samples": [],
        "violations": {},
        "notes": {},
        "counters": Counter(),
        "budget_hit": False,
        "task_walls": [],
    }
    seen_sample_classes = Counter()
    for r in results:
        tot["evaluations"] += r["evaluations"]
        tot["keys"] |= r["keys"]
        tot["keys_capped"] |= r["keys_capped"]
        tot["classes"].update(r["classes"])
        tot["counters"].update(r["counters"])
        tot["budget_hit"] |= r["budget_hit"]
        tot["task_walls"].append((r.get("task"), round(r.get("wall", 0), 1)))
        for s in r["samples"]:
            k = tuple(s["classes"]) + (s["nontrivial"],)
            if seen_sample_classes[k] < 2 and len(tot["samples"]) < 40:
                seen_sample_classes[k] += 1
                tot["samples"].append(s)
        for b, info in r["violations"].items():
            cur = tot["violations"].get(b)
            if cur is None:
                tot["violations"][b] = dict(info)
            else:
                cur["count"] += info["count"]
                if info["size"] < cur["size"]:
                    c = cur["count"]
                    cur.update(info)
                    cur["count"] = c
        for k, v in r["notes"].items():
            if k in tot["notes"] and isinstance(v, (int, float)) and not isinstance(v, bool):
                tot["notes"][k] += v
            elif k in tot["notes"] and isinstance(v, bool):
                tot["notes"][k] = tot["notes"][k] and v
            elif k in tot["notes"] and isinstance(v, list):
                tot["notes"][k] = (tot["notes"][k] + v)[:20]
            else:
                tot["notes"][k] = v
    return tot


def main(argv=None):
    ap = argparse.ArgumentParser()
    ap.add_argument("pid")
    ap.add_argument("--tier", default=os.environ.get("VERIF_TIER") or "quick", choices=["quick", "thorough"])
    ap.add_argument("--seed", type=int, default=None)
    ap.add_argument("--replay", default=None)
    ap.add_argument("--jobs", type=int, default=int(os.environ.get("VERIF_JOBS", "16")))
    ap.add_argument("--budget", type=float, default=None, help="wall-clock guard (s) for generation")
    ap.add_argument("--no-shrink", action="store_true")
    ap.add_argument("--no-evidence", action="store_true")
    a = ap.parse_args(argv)
    pid = a.pid.upper()
    seed = a.seed
    if seed is None:
        try:
            seed = int(os.environ.get("VERIF_SEED", "1"))
        except ValueError:
            seed = 1
    t0 = time.time()
    try:
        mod = load_module(pid)
    except Exception:  # noqa: BLE001
        traceback.print_exc()
        print(f"HARNESS-ERROR property={pid} cannot import check module", file=sys.stderr)
        return 2

    if a.replay:
        ctx = core.Ctx(pid, a.tier, seed)
        try:
            d = core.load_replay(a.replay)
            mod.replay(ctx, d["case"])
        except Exception:  # noqa: BLE001
            traceback.print_exc()
            return 2
        finally:
            ctx.cleanup()
        known = load_known(pid)
        rc = 0
        for b, info in ctx.violations.items():
            kf = _match_known(known, b)
            if kf:
                print(f"KNOWN-FINDING: property={pid} {kf['what']} [bucket={b}]")
            else:
                print(f"VIOLATION property={pid} replay={a.replay}")
                print(f"  bucket={b} msg={info['msg']}")
                rc = 1
        if not ctx.violations:
            print(f"OK property={pid} replay={a.replay} holds")
        return rc

    budget = a.budget
    if budget is None:
        budget = getattr(mod, "BUDGET", {}).get(a.tier, DEFAULT_BUDGET[a.tier])
        if a.tier == "quick":
            # the guard only bites on an overloaded machine (an idle quick run takes 5-40 s); keep it
            # generous so that coverage does not depend on the load of the host
            budget = max(budget, float(os.environ.get("VERIF_QUICK_GUARD", "75")))
    try:
        tasks = list(mod.plan(a.tier, seed))
    except Exception:  # noqa: BLE001
        traceback.print_exc()
        return 2
    # the guard starts after planning (plan() may import heavy modules)
    deadline = time.time() + budget
    rfiles = sorted(glob.glob(os.path.join(HERE, "replays", pid, "*.json")))
    if rfiles:
        tasks.insert(0, {"task": "__replays__", "files": rfiles})
    n = len(tasks)
    args = [(pid, a.tier, seed, i, n, deadline, t) for i, t in enumerate(tasks)]
    jobs = max(1, min(a.jobs, n))
    results = []
    if jobs == 1:
        results = [_worker(x) for x in args]
    else:
        mp = multiprocessing.get_context("fork")
        # hard cap: a task still running this long after the generation guard is abandoned (its
        # partial results are lost, the run is reported as budget-hit/inconclusive for it) -- a check
        # must never hang, e.g. on an exponential blow-up inside the code under test
        grace = float(os.environ.get("VERIF_HARD_GRACE", str(max(90.0, 0.75 * budget))))
        hard_deadline = deadline + grace
        abandoned = []
        pool = mp.Pool(jobs, maxtasksperchild=1, initializer=_reset_signals)
        if True:
            pending = {i: pool.apply_async(_worker, (x,)) for i, x in enumerate(args)}
            while pending:
                for i in [i for i, ar in pending.items() if ar.ready()]:
                    results.append(pending.pop(i).get())
                if not pending:
                    break
                if time.time() > hard_deadline:
                    abandoned = [args[i][6].get("task") for i in sorted(pending)]
                    abandoned_shards = sorted(pending)
                    break
                time.sleep(0.2)
            if pending:
                # abandon: kill the workers with their process groups. Pool.terminate() must NOT be
                # called afterwards: a worker killed while holding the task-queue lock makes it
                # deadlock; the pool is leaked and the process leaves through os._exit (see _exit_now)
                import signal

                global _LEAKED_POOL
                _LEAKED_POOL = pool
                for proc in list(getattr(pool, "_pool", [])):
                    try:
                        os.killpg(proc.pid, signal.SIGKILL)
                    except OSError:
                        pass
            else:
                pool.terminate()
        if abandoned:
            # pick up what the abandoned tasks had recorded so far (checkpoints written every few seconds)
            import pickle

            for sh in abandoned_shards:
                cp = os.path.join(os.environ.get("VERIF_SCRATCH") or "/var/tmp", f"vf-ckpt-{pid}-{os.getpid()}-{sh}.pkl")
                try:
                    with open(cp, "rb") as f:
                        part = pickle.load(f)
                    part["task"] = "__partial__"
                    part["wall"] = 0
                    part["budget_hit"] = True
                    results.append(part)
                except Exception:  # noqa: BLE001
                    pass
                try:
                    os.unlink(cp)
                except OSError:
                    pass
            print(f"NOTE property={pid} abandoned {len(abandoned)} task(s) still running {grace:.0f}s after the "
                  f"generation guard: {abandoned[:8]} (inconclusive for them)", file=sys.stderr)
            results.append({"evaluations": 0, "keys": set(), "keys_capped": False, "classes": {}, "samples": [],
                            "violations": {}, "notes": {"abandoned_tasks": len(abandoned)}, "counters": {},
                            "budget_hit": True, "task": "__abandoned__", "wall": 0})
    errs = [r for r in results if "error" in r]
    if errs:
        for r in errs:
            print(f"HARNESS-ERROR property={pid} task={r['task']}\n{r['error']}", file=sys.stderr)
        return 2
    tot = merge(results)

    known = load_known(pid)
    outdir = os.path.join(HERE, "out", "replays", pid)
    new_viol = []
    known_seen = []
    for b in sorted(tot["violations"]):
        info = tot["violations"][b]
        kf = _match_known(known, b)
        if kf:
            known_seen.append((kf, b, info))
            continue
        if not a.no_shrink and hasattr(mod, "shrink_case"):
            try:
                sctx = core.Ctx(pid, a.tier, seed)
                small = mod.shrink_case(sctx, b, info["case"])
                sctx.cleanup()
                if small is not None and len(core.jdump(small)) < info["size"]:
                    info = dict(info, case=small, size=len(core.jdump(small)))
            except Exception:  # noqa: BLE001
                traceback.print_exc()
        path = info.get("from_replay") or os.path.relpath(
            core.write_replay(outdir, pid, b, info, seed, a.tier), HERE
        )
        new_viol.append((b, info, path))

    wall = time.time() - t0
    for kf in known:
        if kf.get("kind") != "known":
            continue
        hits = [(b, i) for (k, b, i) in known_seen if k is kf]
        state = f"reproduced this run: {sum(i['count'] for _, i in hits)} case(s)" if hits else "not exercised this run"
        print(f"KNOWN-FINDING: property={pid} {kf['what']} [{state}]")
    for b, info, path in new_viol:
        print(f"VIOLATION property={pid} replay={path}")
        print(f"  bucket={b} count={info['count']} msg={info['msg'][:400]}")

    if not a.no_evidence:
        try:
            write_evidence(mod, pid, a.tier, seed, tot, wall, known_seen, new_viol)
        except Exception:  # noqa: BLE001
            traceback.print_exc()
            return 2
    nd = len(tot["keys"])
    print(
        f"{'FAIL' if new_viol else 'OK'} property={pid} tier={a.tier} seed={seed} evaluations={tot['evaluations']} "
        f"distinct_nontrivial={nd} violations={len(new_viol)} known={len(known_seen)} wall={wall:.1f}s"
        + (" budget-hit(inconclusive beyond this point)" if tot["budget_hit"] else "")
    )
    if new_viol:
        return 1
    if tot["evaluations"] < 1 or nd < 2:
        print(f"HARNESS-ERROR property={pid} vacuous run (evaluations={tot['evaluations']}, nontrivial={nd})", file=sys.stderr)
        return 2
    return 0


def _match_known(known, bucket):
    for kf in known:
        if kf.get("kind") != "known":
            continue
        key = kf.get("key", "")
        if bucket == key or fnmatch.fnmatchcase(bucket, key):
            return kf
    return None


def write_evidence(mod, pid, tier, seed, tot, wall, known_seen, new_viol):
    cov = {
        "evaluations": tot["evaluations"],
        "distinct_nontrivial": len(tot["keys"]),
        "distinct_nontrivial_capped": tot["keys_capped"],
        "rule": mod.RULE,
        "samples": tot["samples"][:30],
        "classes": dict(sorted(tot["classes"].items())),
        "counters": dict(sorted(tot["counters"].items())),
        "budget_hit": tot["budget_hit"],
        "tasks": len(tot["task_walls"]),
        "known_findings_seen": [
            {"key": k.get("key"), "bucket": b, "count": i["count"]} for k, b, i in known_seen
        ],
        "violation_buckets": [{"bucket": b, "count": i["count"], "replay": p} for b, i, p in new_viol],
    }
    for k, v in tot["notes"].items():
        cov.setdefault(k, v)
    ev = {
        "property_id": pid,
        "tier": tier,
        "seed": seed,
        "level": mod.LEVEL,
        "coverage": cov,
        "assumptions": list(getattr(mod, "ASSUMPTIONS", [])),
        "wall_s": round(wall, 2),
        "violations": len(new_viol),
    }
    d = os.path.join(HERE, "evidence")
    os.makedirs(d, exist_ok=True)
    tmp = os.path.join(d, f".{pid}.json.tmp")
    with open(tmp, "w") as f:
        json.dump(ev, f, indent=1, sort_keys=True, default=core._json_default)
        f.write("\n")
    os.replace(tmp, os.path.join(d, f"{pid}.json"))


def _exit_now(rc):
    """leave without running multiprocessing's atexit handlers (they can deadlock on a pool whose
    workers had to be killed)"""
    try:
        sys.stdout.flush()
        sys.stderr.flush()
    finally:
        os._exit(rc)


if __name__ == "__main__":
    _exit_now(main())
